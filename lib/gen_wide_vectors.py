#!/usr/bin/env python3
"""Reference vectors for WideTest.tla / FxTest.tla, computed with Python's unbounded ints and decimal."""
import json, random, sys, math
from decimal import Decimal, getcontext

def limbs(x):
    s = (x > 0) - (x < 0)
    x = abs(x); d = []
    while x:
        d.append(x % 10000); x //= 10000
    return [s, d]

def main(out, seed=12345, n=300):
    rnd = random.Random(seed)
    with open(out, "w") as f:
        specials = [0, 1, -1, 9999, 10000, -10000, 10**8 - 1, 10**8, 99999999 * 10**8, 10**40, -(10**40) + 1]
        pairs = [(a, b) for a in specials for b in specials]
        for _ in range(n):
            ka, kb = rnd.choice([1, 3, 8, 20, 45, 90]), rnd.choice([1, 2, 5, 12, 30, 50])
            a = rnd.randrange(-10**ka, 10**ka); b = rnd.randrange(-10**kb, 10**kb)
            pairs.append((a, b))
        for a, b in pairs:
            rec = {"a": limbs(a), "b": limbs(b), "add": limbs(a + b), "sub": limbs(a - b), "mul": limbs(a * b),
                   "cmp": (a > b) - (a < b), "gcd": limbs(math.gcd(a, b)), "sqrt": limbs(math.isqrt(abs(a)))}
            if b != 0:
                rec["div"] = limbs(a // b)
            else:
                rec["div"] = limbs(0)
            f.write(json.dumps(rec) + "\n")

if __name__ == "__main__":
    main(sys.argv[1])
