"""Per-property checks: scopes, jobs, evidence.  See DESIGN.md section 5."""
import json, os, sys, time
import sfv
from sfv import Run, p1_job, pair_job, p2_job, p3_stream_job, exp_job, record, model_job, conf_job, apalache_job, log
import random

CHECKS = {}

UNMODELLED = ("Tap", "Decomp")
def modelled(cfg):
    if cfg.get("k") == "PolarizedFractalEfficiency" and cfg.get("n", 0) < 3:
        return False          # refused by the constructor
    return cfg.get("k") not in UNMODELLED and all(modelled(c) for c in cfg.get("c", []))

def with_model(run, name, scope, conf=True):
    """the same scope at the model level: family 1 (machine = definition; MC_Model) and family 3 (observation = machine; ProdM)"""
    sc = {k: v for k, v in scope.items() if k in ("alphabet", "unit", "maxlen", "eps")}
    sc["cfgs"] = [c for c in scope["cfgs"] if modelled(c)]
    if not sc["cfgs"]:
        return
    run.submit(model_job, name + "-model", sc)
    if conf:
        run.submit(conf_job, name + "-conf", sc)

def check(pid):
    def deco(f):
        CHECKS[pid] = f
        return f
    return deco

def cfgs(kinds, ns, **extra):
    out = []
    for k in kinds:
        for n in ns:
            d = {"k": k, "n": n}
            d.update(extra)
            out.append(d)
    return out

# ------------------------------------------------------------------------------------------------
@check("C02")
def c02(tier):
    run = Run("C02", tier, "model_checking")
    kinds = ["Sma", "Cumulative", "Min", "Max", "WelfordOnline", "HLNormalizer", "Roc", "BinaryEntropy", "Vst", "Vsct"]
    A = [-2, 0, 1, 3]
    if tier == "quick":
        plan = [(1, 4, A), (2, 5, A), (3, 6, A), (4, 7, [-2, 0, 3])]
    else:
        plan = [(1, 5, A), (2, 6, A), (3, 7, A), (4, 8, A), (5, 9, [-2, 0, 3]), (6, 10, [-2, 0, 3]), (7, 10, [-2, 0, 3])]
    for n, L, alpha in plan:
        sc = {"prop": "C02", "cfgs": cfgs(kinds, [n]), "alphabet": alpha, "unit": 1, "maxlen": L, "extras": True}
        run.submit(p1_job, "w-n%d" % n, "MC_Def", sc)
        with_model(run, "w-n%d" % n, sc)
    # "N values delivered": the window counts what the inner view delivers, not what was fed (inner view withholds its first value)
    for n, L in ((1, 5), (2, 6), (3, 7)) if tier == "quick" else ((1, 6), (2, 7), (3, 8), (4, 9)):
        sc = {"prop": "C02", "cfgs": chains2(cfgs(kinds, [n]), sma(2)), "alphabet": [-2, 0, 3], "unit": 1, "maxlen": L, "extras": True}
        run.submit(p1_job, "w-chain-n%d" % n, "MC_Def", sc)
    f32_job(run, "C02", cfgs(kinds, [2, 3]), [-2, 0, 1, 3], 6)
    # -0.0 among the inputs (symbol 2147483647; the number 0 to the definitions): "non-negative", ties and zero bases must treat it as 0
    run.submit(p1_job, "w-negzero", "MC_Def", {"prop": "C02", "cfgs": cfgs(kinds, [2, 3]), "alphabet": [-2, 0, 2147483647, 3], "unit": 1, "maxlen": 5, "extras": True})
    release_job(run, "C02", cfgs(kinds, [1, 3]), [-2, 0, 1, 3], 6, extras=True)
    inv_ = ["HLNormalizer", "Roc", "BinaryEntropy", "Vsct"]      # (Vst is x itself on a flat window: neither invariant nor always linear)
    for k_ in (-70, 60):
        run.submit(p1_job, "w-units-inv-p%d" % k_, "MC_Def", {"prop": "C02", "cfgs": cfgs(inv_, [2, 3]), "alphabet": [-2, 0, 1, 3], "unit": 1, "maxlen": 6, "pow2": k_})
        run.submit(p1_job, "w-units-lin-p%d" % k_, "MC_Def", {"prop": "C02", "cfgs": cfgs([k for k in kinds if k not in inv_ and k != "Vst"], [2, 3]), "alphabet": [-2, 0, 1, 3],
                                                             "unit": 1, "maxlen": 6, "pow2": k_, "outpow2": -k_})
    for m in ("Ind_Sma", "Ind_Ext", "Ind_HL", "Ind_Count"):
        run.submit(apalache_job, m)
    norm = ["HLNormalizer", "Roc", "BinaryEntropy", "Vsct", "Vst"]
    for n, L in ((2, 5), (3, 6)):
        run.submit(p1_job, "w-tiny-n%d" % n, "MC_Def", {"prop": "C02", "cfgs": cfgs(norm[:4], [n]), "alphabet": [-2, 0, 1, 3], "unit": 1000000000, "maxlen": L})
        run.submit(p1_job, "w-huge-n%d" % n, "MC_Def", {"prop": "C02", "cfgs": cfgs(norm, [n]), "alphabet": [-2000000, 0, 1000000, 3000000], "unit": 1, "maxlen": L})
    # larger windows on recorded integer streams (adversarial shapes), definition on the ghost window (P3)
    rnd = random.Random(202 + run.seed)
    big = []
    for k in kinds:
        for n in ((6, 7, 8, 16, 33, 100) if tier == "quick" else (5, 6, 7, 8, 13, 16, 33, 64, 100, 257)):
            big.append({"cfg": {"k": k, "n": n}, "unit": 1, "mode": "window", "eps": [1, 1000000000], "float": "f64",
                        "xs": shapes(rnd, n, -40, 40, max(3 * n, 300) if tier == "quick" else 3000), "k": 1})
    for k in kinds:
        big.append({"cfg": {"k": k, "n": 300}, "unit": 1, "mode": "window", "eps": [1, 1000000000], "float": "f64",
                    "xs": shapes(rnd, 300, -40, 40, 1000), "k": 7, "extras": k == "WelfordOnline"})
    for n in (3, 16, 100):
        big.append({"cfg": {"k": "WelfordOnline", "n": n}, "unit": 1, "mode": "window", "eps": [1, 1000000000], "float": "f64",
                    "xs": shapes(rnd, n, -40, 40, 300), "k": 1, "extras": True})
    run.submit(p3_stream_job, "w-big", "C02", big)
    sw = window_sweep(rnd, kinds)
    run.submit(p3_stream_job, "w-sweep-a", "C02", sw[:len(sw) // 2])
    run.submit(p3_stream_job, "w-sweep-b", "C02", sw[len(sw) // 2:])
    # decimal unit: same definitions on inputs k/10 (not exactly representable): the statement allows rounding noise
    # proportional to the magnitude; sqrt-type outputs amplify 1e-16 to 1e-8, hence 1e-6 here (C16's figure)
    run.submit(p1_job, "w-dec", "MC_Def", {"prop": "C02", "cfgs": cfgs(kinds, [2, 3]), "alphabet": [-7, 0, 3, 12], "unit": 10, "maxlen": 5 if tier == "quick" else 7, "extras": True,
                                   "eps": [1, 1000000]})
    return run.finish("every input sequence over the alphabet up to maxlen, for every listed view and window length; "
                      "non-trivial = states in which the definition fixes the answer (exact value, fixed-point value, None or hold)")

SWEEP_NS = list(range(5, 21)) + [24, 31, 32, 33, 47, 48, 63, 64, 65, 66, 96, 127, 128, 129]
def window_sweep(rnd, kinds, lo=-40, hi=40, ns=SWEEP_NS):
    """one short recorded stream per (view, window length) over a dense set of window lengths (every length to 20, then the
    neighbourhoods of 32, 48, 64, 96, 128): a defect tied to one particular length has nowhere to hide; sparsely judged for large N"""
    return [{"cfg": {"k": k, "n": n}, "unit": 1, "mode": "window", "eps": [1, 1000000000], "float": "f64",
             "xs": shapes(rnd, n, lo, hi, 2 * n + 24), "k": max(1, n // 16), "dense": [[n - 1, n + 3]]} for k in kinds for n in ns]

def release_job(run, prop, cf, alphabet, L, name="release", **extra):
    """the same definitions on the optimised build (no debug assertions, no overflow checks): a fast path compiled only there,
    or an integer that wraps instead of panicking, changes values, not just panics"""
    run.submit(p1_job, name, "MC_Def", dict({"prop": prop, "cfgs": cf, "alphabet": alphabet, "unit": 1, "maxlen": L}, **extra), profile="release")

def f32_job(run, prop, cf, alphabet, L, name="f32"):
    """the same definitions on the f32 instantiation of the views (T: Float is generic): 1e-4 relative"""
    run.submit(p1_job, name, "MC_Def", {"prop": prop, "cfgs": cf, "alphabet": alphabet, "unit": 1, "maxlen": L, "float": "f32", "eps": [1, 10000]})

RULE_DEF = ("every input sequence over the alphabet up to maxlen, for every listed view and window length; "
            "non-trivial = states in which the definition fixes the answer (exact value, fixed-point value, None or hold)")

# ------------------------------------------------------------------------------------------------
@check("C05")
def c05(tier):
    run = Run("C05", tier, "model_checking")
    kinds = ["Rsi", "MyRSI"]
    plan = [(1, 5), (2, 6), (3, 7), (4, 8)] if tier == "quick" else [(1, 7), (2, 8), (3, 9), (4, 10), (5, 10), (6, 11)]
    for alpha in ([0, 1, 3], [-2, 0, 2]):
        for n, L in plan:
            sc = {"prop": "C05", "cfgs": cfgs(kinds, [n]), "alphabet": alpha, "unit": 1, "maxlen": L}
            run.submit(p1_job, "rsi-n%d-a%d" % (n, alpha[0]), "MC_Def", sc)
            with_model(run, "rsi-n%d-a%d" % (n, alpha[0]), sc)
    run.submit(apalache_job, "Ind_MyRsi")
    f32_job(run, "C05", cfgs(kinds, [1, 2, 3]), [-2, 0, 2], 6)
    run.submit(p1_job, "rsi-negzero", "MC_Def", {"prop": "C05", "cfgs": cfgs(kinds, [1, 2, 3]), "alphabet": [-2, 0, 2147483647, 3], "unit": 1, "maxlen": 5})
    release_job(run, "C05", cfgs(kinds, [1, 2, 3]), [-2, 0, 1, 3], 6)
    # the same definitions in units of 2^-70 and 2^60 (G and L scale with the input, their ratio does not: no absolute threshold)
    for k_ in (-70, 60):
        run.submit(p1_job, "rsi-units-p%d" % k_, "MC_Def", {"prop": "C05", "cfgs": cfgs(kinds, [1, 2, 3]), "alphabet": [-2, 0, 1, 3], "unit": 1, "maxlen": 6, "pow2": k_})
    for n, L in ((2, 5), (3, 6)):
        run.submit(p1_job, "rsi-tiny-n%d" % n, "MC_Def", {"prop": "C05", "cfgs": cfgs(kinds, [n]), "alphabet": [0, 1, 2, 3], "unit": 1000000000, "maxlen": L})
        run.submit(p1_job, "rsi-huge-n%d" % n, "MC_Def", {"prop": "C05", "cfgs": cfgs(kinds, [n]), "alphabet": [-2000000, 0, 1000000, 3000000], "unit": 1, "maxlen": L})
    rnd = random.Random(505 + run.seed)
    big = [{"cfg": {"k": k, "n": n}, "unit": 1, "mode": "window", "eps": [1, 1000000000], "float": "f64",
            "xs": shapes(rnd, n, -40, 40, 300 if tier == "quick" else 3000), "k": 1}
           for k in kinds for n in ((7, 14, 33, 100) if tier == "quick" else (7, 14, 16, 33, 64, 100, 257))]
    # a long flat stretch (longer than any narrow run-length counter), then movement again; sparsely recorded, densely around the end
    for k in kinds:
        for n in (3, 14):
            xs = shapes(rnd, n, -40, 40, 60) + [7] * 400 + shapes(rnd, n, -40, 40, 40)
            big.append({"cfg": {"k": k, "n": n}, "unit": 1, "mode": "window", "eps": [1, 1000000000], "float": "f64", "xs": xs, "k": 1})
            m = 66000 if tier == "quick" else 140000
            xs = shapes(rnd, n, -40, 40, 50) + [-3] * m + shapes(rnd, n, -40, 40, 50)
            big.append({"cfg": {"k": k, "n": n}, "unit": 1, "mode": "window", "eps": [1, 1000000000], "float": "f64", "xs": xs, "k": 3000,
                        "dense": [[0, 60], [50 + 250, 50 + 262], [50 + m - 4, 50 + m + 50]]})
    run.submit(p3_stream_job, "rsi-big", "C05", big)
    run.submit(p3_stream_job, "rsi-sweep", "C05", window_sweep(rnd, kinds))
    # over what an inner view delivers: a withheld first value (Sma), repeated values (a clip), held values (Roc)
    chn = [dict(c, c=[i]) for c in cfgs(kinds, [2, 3]) for i in (sma(2), {"k": "GTE", "v": [1, 1]}, {"k": "Roc", "n": 1})]
    run.submit(p1_job, "rsi-chain", "MC_Def", {"prop": "C05", "cfgs": chn, "alphabet": [-2, 0, 1, 3], "unit": 1, "maxlen": 6})
    return run.finish(RULE_DEF + "; plus recorded streams at larger N validated on the ghost window (P3)")

@check("C06")
def c06(tier):
    run = Run("C06", tier, "model_checking")
    kinds = ["CorrelationTrendIndicator", "NoiseEliminationTechnology", "CenterOfGravity"]
    if tier == "quick":
        plan = [(3, 6, [0, 1, 2, 3]), (4, 7, [0, 1, 3]), (5, 8, [0, 1, 3]), (3, 6, [-2, 0, 1])]
    else:
        plan = [(3, 7, [0, 1, 2, 3]), (4, 8, [0, 1, 2, 3]), (5, 9, [0, 1, 3]), (6, 10, [0, 1, 3]), (7, 10, [0, 1, 3]),
                (3, 7, [-2, 0, 1, 2]), (4, 8, [-2, 0, 1]), (8, 11, [0, 2])]
    for n, L, alpha in plan:
        sc = {"prop": "C06", "cfgs": cfgs(kinds, [n]), "alphabet": alpha, "unit": 1, "maxlen": L}
        run.submit(p1_job, "trend-n%d-a%d" % (n, alpha[0]), "MC_Def", sc)
        with_model(run, "trend-n%d-a%d" % (n, alpha[0]), sc)
    # the same definitions in very small and very large units (the statements hold for every input; an absolute threshold does not)
    for n, L in ((3, 5), (4, 6)):
        run.submit(p1_job, "trend-tiny-n%d" % n, "MC_Def", {"prop": "C06", "cfgs": cfgs(kinds, [n]), "alphabet": [0, 1, 2, 3], "unit": 1000000000, "maxlen": L})
        run.submit(p1_job, "trend-huge-n%d" % n, "MC_Def", {"prop": "C06", "cfgs": cfgs(kinds, [n]), "alphabet": [-2000000, 0, 1000000, 3000000], "unit": 1, "maxlen": L})
    rnd = random.Random(606 + run.seed)
    big = [{"cfg": {"k": k, "n": n}, "unit": 1, "mode": "window", "eps": [1, 1000000000], "float": "f64",
            "xs": shapes(rnd, n, -40 if k != "CenterOfGravity" else 1, 40, 250 if tier == "quick" else 2000), "k": 1}
           for k in kinds for n in ((9, 16, 20, 48) if tier == "quick" else (9, 16, 20, 48, 100))]
    # large windows, sparsely recorded (n(n-1)/2 pairs: 4950 at 100, 44850 at 300 - beyond any 8- or 16-bit counter)
    for k in kinds:
        for n, kk in ((100, 9), (300, 41)):
            big.append({"cfg": {"k": k, "n": n}, "unit": 1, "mode": "window", "eps": [1, 1000000000], "float": "f64",
                        "xs": shapes(rnd, n, -30, 30, 3 * n + 40), "k": kk, "dense": [[n - 2, n + 3]]})
    run.submit(p3_stream_job, "trend-big", "C06", big)
    # f32: a level that has drifted far from the first value of the stream, and a jump of 2^25 that then leaves the window
    f32s = []
    for k in kinds:
        for n in (5, 16):
            f32s.append({"cfg": {"k": k, "n": n}, "unit": 1000, "mode": "window", "eps": [1, 100], "float": "f32",
                         "xs": [0, 3] + [1500000 + rnd.randint(-300, 300) for _ in range(3 * n + 20)], "k": 1})
            xs = []
            while len(xs) < 6 * n + 30:
                xs += [rnd.randint(1, 9) for _ in range(rnd.randint(n, 2 * n))] + [33554432] + [rnd.randint(1, 9) for _ in range(n + 2)]
            f32s.append({"cfg": {"k": k, "n": n}, "unit": 1, "mode": "window", "eps": [1, 100], "float": "f32", "xs": xs, "k": 1})
    # f32 over a few thousand updates (anything that grows with the number of updates - an absolute time index - loses f32 precision)
    for k in kinds:
        f32s.append({"cfg": {"k": k, "n": 10}, "unit": 10, "mode": "window", "eps": [1, 100], "float": "f32",
                     "xs": walk(rnd, 6000, 100, 2000, 60), "k": 40, "dense": [[5950, 6000]]})
    run.submit(p3_stream_job, "trend-f32", "C06", f32s)
    run.submit(p3_stream_job, "trend-sweep", "C06", window_sweep(rnd, kinds, lo=-30, hi=30, ns=[n for n in SWEEP_NS if n <= 66]))
    f32_job(run, "C06", cfgs(kinds, [3, 4]), [-2, 0, 1, 3], 6)
    run.submit(p1_job, "trend-negzero", "MC_Def", {"prop": "C06", "cfgs": cfgs(kinds, [3]), "alphabet": [-2, 0, 2147483647, 3], "unit": 1, "maxlen": 6})
    # over what an inner view delivers (a withheld first value, held values)
    run.submit(p1_job, "trend-chain", "MC_Def", {"prop": "C06", "cfgs": [dict(c, c=[i]) for c in cfgs(kinds, [3]) for i in (sma(2), {"k": "Roc", "n": 1}, {"k": "Max", "n": 2})],
                                        "alphabet": [-2, 0, 1, 3], "unit": 1, "maxlen": 6})
    release_job(run, "C06", cfgs(kinds, [3, 4]), [-2, 0, 1, 3], 6)
    for k_ in (-70, 60):
        run.submit(p1_job, "trend-units-p%d" % k_, "MC_Def", {"prop": "C06", "cfgs": cfgs(kinds, [3, 4]), "alphabet": [-2, 0, 1, 3], "unit": 1, "maxlen": 6, "pow2": k_})
    return run.finish(RULE_DEF + "; plus recorded streams at larger N validated on the ghost window (P3)")

@check("C13")
def c13(tier):
    run = Run("C13", tier, "model_checking")
    cf = [{"k": "WelfordRolling"}, {"k": "Drawdown"}, {"k": "LnReturn"}]
    L = 7 if tier == "quick" else 8
    sc = {"prop": "C13", "cfgs": cf, "alphabet": [1, 2, 4, 7], "unit": 1, "maxlen": L, "extras": True}
    run.submit(p1_job, "roll-int", "MC_Def", sc)
    with_model(run, "roll-int", dict(sc, maxlen=L - 1))
    run.submit(p1_job, "roll-dec", "MC_Def", {"prop": "C13", "cfgs": cf, "alphabet": [5, 12, 20, 31], "unit": 10, "maxlen": L - 1, "extras": True,
                                      "eps": [1, 1000000]})
    # the same definitions over what an inner view delivers (a warm-up, a shift by a constant, a smoothing), not over the raw input
    E_ = {"k": "Echo"}
    inn = [{"k": "Sma", "n": 2}, {"k": "Add", "c": [E_, {"k": "Constant", "v": [3, 2]}]}, {"k": "Max", "n": 2}]
    ch = [dict(c, c=[i]) for c in cf for i in inn]
    f32_job(run, "C13", cf, [1, 2, 4, 7], 6)
    release_job(run, "C13", cf, [1, 2, 4, 7], 6, extras=True)
    # units of 2^-70 and 2^60: Drawdown and LnReturn are ratios (unchanged), WelfordRolling scales (answers converted back exactly)
    for k_ in (-70, 60):
        run.submit(p1_job, "roll-units-inv-p%d" % k_, "MC_Def", {"prop": "C13", "cfgs": cf[1:], "alphabet": [1, 2, 4, 7], "unit": 1, "maxlen": 6, "pow2": k_})
        run.submit(p1_job, "roll-units-lin-p%d" % k_, "MC_Def", {"prop": "C13", "cfgs": cf[:1], "alphabet": [1, 2, 4, 7], "unit": 1, "maxlen": 6, "pow2": k_, "outpow2": -k_, "extras": False})
    run.submit(p1_job, "roll-chain", "MC_Def", {"prop": "C13", "cfgs": ch, "alphabet": [1, 2, 4, 7], "unit": 1, "maxlen": L - 1, "extras": True})
    # long positive streams (new peaks after deeper troughs, repeated peaks, monotone runs): exact running sums in the ghost state
    rnd = random.Random(77 + run.seed)
    n = 10000 if tier == "quick" else 1000000
    streams = []
    for cfg in cf:
        xs = walk(rnd, n, 100, 10000, 150)
        xs[n // 3:n // 3 + 200] = sorted(xs[n // 3:n // 3 + 200])                 # monotone run
        xs[n // 2:n // 2 + 50] = [max(xs)] * 50                                  # repeated peak
        streams.append({"cfg": cfg, "unit": 100, "mode": "rolling", "eps": [1, 1000000000], "float": "f64", "xs": xs, "k": 10 if tier == "quick" else 200,
                        "extras": cfg["k"] == "WelfordRolling"})
        if tier == "quick":
            # beyond 2^16 values (a sample count in a narrow integer would wrap), sparsely recorded
            streams.append({"cfg": cfg, "unit": 100, "mode": "rolling", "eps": [1, 1000000000], "float": "f64", "xs": walk(rnd, 70000, 100, 10000, 150), "k": 200,
                            "extras": cfg["k"] == "WelfordRolling"})
    # a large mean with small variation: any formula that subtracts large sums loses the variance here
    xs2 = [100000000 + v for v in walk(rnd, n // 2, -2000, 2000, 300)]
    streams.append({"cfg": {"k": "WelfordRolling"}, "unit": 100, "mode": "rolling", "eps": [1, 1], "epsp": 12, "float": "f64", "xs": xs2, "k": 10 if tier == "quick" else 200})
    run.submit(p3_stream_job, "roll-long", "C13", streams)
    return run.finish(RULE_DEF + "; plus recorded long streams validated against exact running sums (P3)")

E = {"k": "Echo"}
def ema(n): return {"k": "Ema", "n": n}
def sma(n): return {"k": "Sma", "n": n}

@check("C11")
def c11(tier):
    run = Run("C11", tier, "model_checking")
    def views(n):
        v = [{"k": "SuperSmoother", "n": n}, {"k": "LaguerreRSI", "n": n}, {"k": "CyberCycle", "n": n},
             {"k": "RoofingFilter", "n": n, "m": 2}, {"k": "RoofingFilter", "n": n, "m": 3},
             {"k": "EhlersFisherTransform", "n": n, "c": [E, ema(2)]}, {"k": "EhlersFisherTransform", "n": n, "c": [E, sma(2)]},
             {"k": "EhlersFisherTransform", "n": n, "c": [E, E]}]
        if n >= 3:
            v += [{"k": "TrendFlex", "n": n}, {"k": "ReFlex", "n": n},
                  {"k": "PolarizedFractalEfficiency", "n": n, "c": [E, ema(3)]}, {"k": "PolarizedFractalEfficiency", "n": n, "c": [E, sma(2)]},
                  {"k": "PolarizedFractalEfficiency", "n": n, "c": [E, E]}]
        return v
    lag = [{"k": "LaguerreFilter", "g": g} for g in ([0, 1], [1, 2], [3, 4], [1, 5])]
    if tier == "quick":
        plan = [(1, 5, [0, 1, 3]), (2, 6, [0, 1, 3]), (3, 7, [0, 1, 3]), (4, 7, [1, 2, 4]), (5, 9, [0, 3]), (8, 11, [1, 4])]
    else:
        plan = [(1, 7, [0, 1, 3]), (2, 8, [0, 1, 3]), (3, 9, [0, 1, 3]), (4, 9, [0, 1, 3]), (5, 10, [1, 2, 4]), (6, 10, [0, 1, 3]),
                (7, 12, [0, 3]), (8, 13, [1, 4]), (10, 14, [0, 3]), (12, 15, [1, 4]), (16, 16, [0, 3]), (20, 16, [1, 4])]
    for n, L, alpha in plan:
        sc = {"prop": "C11", "cfgs": views(n), "alphabet": alpha, "unit": 1, "maxlen": L}
        run.submit(p1_job, "ehlers-n%d" % n, "MC_Def", sc)
        if n <= 5:
            with_model(run, "ehlers-n%d" % n, dict(sc, maxlen=min(L, 7)))
    # the suite's own window lengths on recorded streams, validated step by step against the machine (= the difference
    # equations, model-checked against the batch definitions above by MC_Model)
    rnd = random.Random(1111 + run.seed)
    big = []
    for n in ((16, 20, 48) if tier == "quick" else (9, 16, 20, 33, 48, 100)):
        for cfg in [{"k": "SuperSmoother", "n": n}, {"k": "RoofingFilter", "n": n, "m": 10}, {"k": "LaguerreRSI", "n": n},
                    {"k": "CyberCycle", "n": n}, {"k": "TrendFlex", "n": n}, {"k": "ReFlex", "n": n}]:
            loose = cfg["k"] in ("SuperSmoother", "RoofingFilter")      # the two accepted spellings of the angle differ by 1e-6
            big.append({"cfg": cfg, "unit": 10, "mode": "machine", "eps": [1, 100000] if loose else [1, 100000000], "float": "f64",
                        "xs": walk(rnd, 400 if tier == "quick" else (2000 if n <= 33 else 800), 100, 1000, 60), "k": 1 if tier == "quick" else 4})
    big.append({"cfg": {"k": "LaguerreFilter", "g": [4, 5]}, "unit": 10, "mode": "machine", "eps": [1, 100000000], "float": "f64",
                "xs": walk(rnd, 150, 100, 1000, 60), "k": 1})
    for n in ((10, 16) if tier == "quick" else (10, 16, 20, 33)):
        for cfg in [{"k": "EhlersFisherTransform", "n": n, "c": [E, ema(4)]}, {"k": "PolarizedFractalEfficiency", "n": n, "c": [E, ema(5)]}]:
            big.append({"cfg": cfg, "unit": 10, "mode": "machine", "eps": [1, 100000000], "float": "f64",
                        "xs": walk(rnd, 200 if tier == "quick" else 1000, 100, 1000, 60), "k": 1})
    run.submit(p3_stream_job, "ehlers-big", "C11", big)
    # the same definitions on the same histories in units of 2^-70 and 2^60 (exact changes of unit; the real answers of the linear
    # filters are converted back exactly, those of the normalised indicators are compared as they are): no absolute threshold
    # or additive epsilon may take part in the recursions
    for n, L in (((3, 6),) if tier == "quick" else ((2, 7), (3, 8), (5, 9))):
        inv = [v for v in views(n) if v["k"] in ("LaguerreRSI", "TrendFlex", "ReFlex", "EhlersFisherTransform")]
        lin = [v for v in views(n) if v["k"] in ("SuperSmoother", "RoofingFilter", "CyberCycle")] + lag[:2]
        for k in (-70, 60):
            run.submit(p1_job, "units-inv-n%d-p%d" % (n, k), "MC_Def", {"prop": "C11", "cfgs": inv, "alphabet": [0, 1, 3], "unit": 1, "maxlen": L, "pow2": k})
            run.submit(p1_job, "units-lin-n%d-p%d" % (n, k), "MC_Def", {"prop": "C11", "cfgs": lin, "alphabet": [0, 1, 3], "unit": 1, "maxlen": L, "pow2": k, "outpow2": -k})
    f32_job(run, "C11", [v for n_ in (2, 3) for v in views(n_) if v["k"] in ("SuperSmoother", "RoofingFilter", "CyberCycle")] + lag[:3], [0, 1, 3], 7)
    release_job(run, "C11", views(3) + lag[:2], [0, 1, 3], 7)
    chv = [with_leaf(v, i) for v in views(3) + lag[:2] for i in (sma(2), {"k": "Roc", "n": 1})]
    run.submit(p1_job, "ehlers-chain", "MC_Def", {"prop": "C11", "cfgs": chv, "alphabet": [1, 2, 4], "unit": 1, "maxlen": 7})
    run.submit(p1_job, "laguerre", "MC_Def", {"prop": "C11", "cfgs": lag, "alphabet": [-2, 0, 1, 3], "unit": 1, "maxlen": 6 if tier == "quick" else 8})
    return run.finish(RULE_DEF)

@check("C14")
def c14(tier):
    run = Run("C14", tier, "model_checking")
    K = [E, {"k": "Constant", "v": [3, 2]}, sma(2), {"k": "Roc", "n": 1}]
    cf = [{"k": b, "c": [x, y]} for b in ("Add", "Subtract", "Multiply", "Divide") for x in K for y in K]
    cf += [{"k": g, "v": v, "c": [x]} for g in ("GTE", "LTE") for v in ([1, 2], [0, 1], [-3, 4]) for x in K]
    cf += [{"k": "Tanh", "c": [x]} for x in K] + [E, {"k": "Constant", "v": [3, 2]}, {"k": "Constant", "v": [-1, 4]}]
    L = 4 if tier == "quick" else 6
    sc = {"prop": "C14", "cfgs": cf, "alphabet": [-3, 0, 1, 4], "unit": 2, "maxlen": L, "bitexact": True}
    run.submit(p1_job, "pointwise", "MC_Def", sc)
    with_model(run, "pointwise", sc)
    # the same pointwise definitions in f32 (values at 1e-4: the one-operation rounding check below is f64 only) and on the release build
    run.submit(p1_job, "pointwise-f32", "MC_Def", {"prop": "C14", "cfgs": cf, "alphabet": [-3, 0, 1, 4], "unit": 2, "maxlen": L, "float": "f32", "eps": [1, 10000]})
    run.submit(p1_job, "pointwise-release", "MC_Def", dict(sc), profile="release")
    # bit-exactness in general: children as stand-alone siblings (positions ia, ib), decimal inputs (unit 10, 7) so that
    # operands and results are NOT exactly representable; the combinator must return the IEEE-rounded result of one operation
    for unit, alpha in ((10, [-7, 0, 3, 12]), (7, [1, 2, 5, 9]), (1000000, [-3, 1, 4, 9])):
        kids = [E, {"k": "Constant", "v": [1, 3]}, sma(2), sma(3), {"k": "Roc", "n": 1}, {"k": "Ema", "n": 2}]
        cfx = list(kids)
        for b in ("Add", "Subtract", "Multiply", "Divide"):
            for i, x in enumerate(kids):
                for j, y in enumerate(kids):
                    cfx.append({"k": b, "c": [x, y], "ia": i + 1, "ib": j + 1})
        for i, x in enumerate(kids):
            cfx.append({"k": "RefTanh", "c": [x]})
            cfx.append({"k": "Tanh", "c": [x], "iref": len(cfx)})
        run.submit(p1_job, "rounded-u%d" % unit, "MC_Def", {"prop": "C14", "cfgs": cfx, "alphabet": alpha, "unit": unit, "maxlen": L})
        if unit == 10:
            run.submit(p1_job, "rounded-u10-release", "MC_Def", {"prop": "C14", "cfgs": cfx, "alphabet": alpha, "unit": unit, "maxlen": L}, profile="release")
    # signed zeros: the input symbol 2147483647 is fed as -0.0 (the number 0 to the specification).  One correctly rounded operation
    # fixes the sign of a zero result; Tanh(-0.0) = -0.0 bit for bit; no answer may depend on the zero seen one step earlier
    NZ = 2147483647
    kidz = [E, {"k": "Constant", "v": [-1, 3]}, sma(2), {"k": "LTE", "v": [0, 1]}]
    cfz = list(kidz)
    for b in ("Add", "Subtract", "Multiply", "Divide"):
        for i, x in enumerate(kidz):
            for j, y in enumerate(kidz):
                if not (b == "Divide" and y["k"] != "Constant"):
                    cfz.append({"k": b, "c": [x, y], "ia": i + 1, "ib": j + 1})
    for x in kidz:
        cfz.append({"k": "RefTanh", "c": [x]})
        cfz.append({"k": "Tanh", "c": [x], "iref": len(cfz)})
    run.submit(p1_job, "rounded-negzero", "MC_Def", {"prop": "C14", "cfgs": cfz, "alphabet": [-2, 0, NZ, 3], "unit": 1, "maxlen": L})
    # a clip at 0 commutes with a change of unit: in units of 2^-70 every non-zero value is closer to the clip than machine epsilon,
    # yet GTE must still report max(x, 0) and LTE min(x, 0) (no tolerance around the clip)
    clip0 = [{"k": g, "v": [0, 1], "c": [x]} for g in ("GTE", "LTE") for x in (E, sma(2))]      # children that scale with the unit
    for k_ in (-70, 60):
        run.submit(p1_job, "clip0-units-p%d" % k_, "MC_Def", {"prop": "C14", "cfgs": clip0, "alphabet": [-3, 0, 1, 4], "unit": 2, "maxlen": L, "pow2": k_, "outpow2": -k_})
    Kp = [E, {"k": "LnReturn"}, sma(2), {"k": "Constant", "v": [5, 4]}]
    cfp = [{"k": b, "c": [x, y]} for b in ("Add", "Subtract", "Multiply", "Divide") for x in Kp for y in Kp if "LnReturn" in (x["k"], y["k"])]
    cfp += [{"k": g, "v": [1, 4], "c": [{"k": "LnReturn"}]} for g in ("GTE", "LTE")] + [{"k": "Tanh", "c": [{"k": "LnReturn"}]}]
    run.submit(p1_job, "pointwise-pos", "MC_Def", {"prop": "C14", "cfgs": cfp, "alphabet": [1, 2, 3, 8], "unit": 2, "maxlen": L, "bitexact": True})
    return run.finish(RULE_DEF)

def c04_cfgs(n):
    return [sma(n), ema(n), {"k": "Alma", "n": n}, {"k": "Ema", "n": n, "alpha": [1, 1]}, {"k": "Ema", "n": n, "alpha": [1, 2]},
            {"k": "Ema", "n": n, "alpha": [3, 1]}, {"k": "Alma", "n": n, "sigma": [3, 1], "offset": [1, 2]},
            {"k": "Alma", "n": n, "sigma": [10, 1], "offset": [9, 10]}]

@check("C04")
def c04(tier):
    run = Run("C04", tier, "model_checking")
    plan = [(1, 4), (2, 5), (3, 6), (4, 7)] if tier == "quick" else [(1, 5), (2, 7), (3, 8), (4, 9), (5, 10), (6, 10)]
    for n, L in plan:
        alpha = [-2, 0, 2] if n % 2 else [-2, 0, 1, 3]
        if L >= 7:
            alpha = [-2, 0, 2]
        sc = {"prop": "C04", "cfgs": c04_cfgs(n), "alphabet": alpha, "unit": 1, "maxlen": L}
        # recurrence (Ema, every alpha) and kernel (Alma) clauses: the definition
        run.submit(p1_job, "avg-def-n%d" % n, "MC_Def", sc)
        with_model(run, "avg-def-n%d" % n, sc)
        # ... over what an inner view delivers (withheld first value, held values, a shift): counters count deliveries, not updates
        if n <= 3:
            chn = [dict(c, c=[i]) for c in c04_cfgs(n) for i in (sma(2), {"k": "Roc", "n": 1}, {"k": "Add", "c": [E, {"k": "Constant", "v": [3, 2]}]})]
            run.submit(p1_job, "avg-chain-n%d" % n, "MC_Def", dict(sc, cfgs=chn, maxlen=min(L, 6)))
        # interval / constant / monotone for the averages the statement names (default alpha)
        sc2 = dict(sc); sc2["cfgs"] = [sma(n), ema(n), {"k": "Alma", "n": n}, {"k": "Alma", "n": n, "sigma": [3, 1], "offset": [1, 2]}]
        run.submit(p1_job, "avg-rel-n%d" % n, "MC_C04", sc2, nontrivial_keys=("interval",))
        # affine clause: the same history run through x -> a*x+b
        for a, b in (([2, 1], [5, 1]), ([1, 2], [-1, 1]), ([3, 1], [0, 1])):
            rel_job(run, "avg-affine-n%d-a%d_%d" % (n, a[0], a[1]), "C04", sc2["cfgs"], alpha, 1, min(L, 6), a, b, "affine")
    rnd = random.Random(404 + run.seed)
    st = []
    for n in ((5, 21) if tier == "quick" else (5, 13, 21, 50)):
        for cfg in (ema(n), {"k": "Ema", "n": n, "alpha": [1, 1]}, {"k": "Alma", "n": n}, {"k": "Alma", "n": n, "sigma": [3, 1], "offset": [1, 2]}, sma(n)):
            st.append({"cfg": cfg, "unit": 10, "mode": "window" if cfg["k"] != "Ema" else "machine", "eps": [1, 100000000], "float": "f64",
                       "xs": shapes(rnd, n, -500, 500, 400 if tier == "quick" else 1500), "k": 1})
    # every window length up to 40 (and a few beyond) for the O(1) recurrences, a spread of lengths for the O(N) kernels
    for n in list(range(6, 41)) + [64, 100, 128, 256]:
        if n != 21:
            st.append({"cfg": ema(n), "unit": 10, "mode": "machine", "eps": [1, 100000000], "float": "f64", "xs": shapes(rnd, min(n, 30), -500, 500, 120), "k": 1})
    for n in (6, 8, 10, 13, 16, 34):
        for cfg in ({"k": "Alma", "n": n}, sma(n)):
            st.append({"cfg": cfg, "unit": 10, "mode": "window", "eps": [1, 100000000], "float": "f64", "xs": shapes(rnd, n, -500, 500, 150), "k": 1})
    run.submit(p3_stream_job, "avg-big", "C04", st)
    f32_job(run, "C04", c04_cfgs(2) + c04_cfgs(3), [-2, 0, 1, 3], 6)
    release_job(run, "C04", c04_cfgs(2) + c04_cfgs(3), [-2, 0, 1, 3], 6)
    # interval clause on streams of wide dynamic range (large values, then more than a window nine decades smaller)
    iv = []
    for n in ((1, 2, 3, 5, 21) if tier == "quick" else (1, 2, 3, 4, 5, 8, 13, 21, 50)):
        for cfg in (sma(n), ema(n), {"k": "Alma", "n": n}, {"k": "Alma", "n": n, "sigma": [3, 1], "offset": [1, 2]}):
            iv.append({"cfg": cfg, "unit": 1000, "mode": "interval", "eps": [1, 1], "float": "f64",
                       "xs": residue_runs(rnd, n, 300 if tier == "quick" else 3000), "k": 1})
    for n in ((1, 2, 3, 5) if tier == "quick" else (1, 2, 3, 4, 5, 8, 13)):
        for cfg in (sma(n), ema(n), {"k": "Alma", "n": n}):
            iv.append({"cfg": cfg, "unit": 1000, "mode": "interval", "eps": [1, 1], "float": "f64", "pairs": True,
                       "xs": extreme_runs(rnd, n, 200 if tier == "quick" else 2000), "k": 1})
        # Ema averages every value so far: only a one-signed stream keeps zero out of that interval
        iv.append({"cfg": ema(n), "unit": 1000, "mode": "interval", "eps": [1, 1], "float": "f64", "pairs": True,
                   "xs": extreme_runs(rnd, n, 200 if tier == "quick" else 2000, signed=False), "k": 1})
    run.submit(p3_stream_job, "avg-interval", "C04", iv)
    return run.finish(RULE_DEF + "; for the interval/constant/monotone clauses: states in which the average reports a value")

def rel_job(run, name, prop, cf, alphabet, unit, L, a, b, mode, bitexact=False, cfgs2=None, invonly=False, pow2=0, rescaled=False, profile="dev", flt=None):
    """two real runs per history: x and a*x+b (a = [num,den], b = [num,den]); decided by MC_Rel"""
    an, ad = a; bn, bd = b
    unit2 = ad * bd * unit
    alpha2 = [an * bd * x + bn * ad * unit for x in alphabet]
    sc = {"prop": prop, "cfgs": cf, "alphabet": alphabet, "unit": unit, "maxlen": L, "a": a, "b": b, "mode": mode}
    if bitexact:
        sc["bitexact"] = True
    if cfgs2:
        sc["cfgs2"] = cfgs2
    if invonly:
        sc["invonly"] = True
        sc["a"] = [1, 1]; sc["a_real"] = "%d/%d (only invariance is asserted; the factor itself is not read by the specification)" % (an, ad)
    sc2 = {"cfgs": cfgs2 or cf, "alphabet": alpha2, "unit": unit2, "maxlen": L}
    if pow2:
        sc2["pow2"] = pow2          # second run in units of 2^pow2 (exact); only invariance is asserted
    if rescaled:
        sc["rescaled"] = True; sc2["outpow2"] = -pow2   # ... and its answers converted back to the original unit (exact)
    if flt:
        sc["float"] = flt; sc2["float"] = flt
    run.submit(p1_job, name, "MC_Rel", sc, scope2=sc2, profile=profile,
               nontrivial_keys=("rel.inv", "rel.scale", "rel.affine", "rel.neg", "rel.rsi"))

def c12_cfgs(n):
    v = cfgs(["HLNormalizer", "Vsct", "CorrelationTrendIndicator", "NoiseEliminationTechnology", "Rsi", "MyRSI", "LaguerreRSI", "Vst", "Roc",
              "CenterOfGravity", "BinaryEntropy", "Min", "Max", "Sma", "Ema", "Alma", "Cumulative", "WelfordOnline", "SuperSmoother",
              "CyberCycle"], [n])
    v += [{"k": "EhlersFisherTransform", "n": n, "c": [E, ema(2)]}, {"k": "RoofingFilter", "n": n, "m": 2}, {"k": "LaguerreFilter", "g": [1, 2]}]
    if n >= 3:
        v += cfgs(["TrendFlex", "ReFlex"], [n])
    return v
def swap_minmax(cf):
    return [dict(c, k={"Min": "Max", "Max": "Min"}.get(c["k"], c["k"])) for c in cf]

@check("C12")
def c12(tier):
    run = Run("C12", tier, "model_checking")
    plan = [(1, 4), (2, 5), (3, 6), (4, 7)] if tier == "quick" else [(1, 5), (2, 6), (3, 7), (4, 8), (5, 9), (6, 9)]
    for n, L in plan:
        A = [-2, 0, 1, 3] if L <= 5 else [-2, 0, 3]
        cf = c12_cfgs(n)
        rel_job(run, "scale2-n%d" % n, "C12", cf, A, 1, L, [2, 1], [0, 1], "scale", bitexact=True)
        rel_job(run, "scale3h-n%d" % n, "C12", cf, A, 1, L, [3, 2], [0, 1], "scale")
        if n <= 3:
            # units far from 1: an absolute threshold anywhere in a view is not scale invariant (bit-exact: powers of two)
            rel_job(run, "scale-tiny-n%d" % n, "C12", cf, A, 1, L, [1, 1], [0, 1], "scale", bitexact=True, invonly=True, pow2=-120)
            rel_job(run, "scale-huge-n%d" % n, "C12", cf, A, 1, L, [1, 1], [0, 1], "scale", bitexact=True, invonly=True, pow2=100)
            eq = [c for c in cf if c["k"] in ("Min", "Max", "Sma", "Ema", "Alma", "Cumulative", "WelfordOnline", "SuperSmoother", "CyberCycle", "RoofingFilter", "LaguerreFilter")]
            rel_job(run, "equiv-tiny-n%d" % n, "C12", eq, A, 1, L, [1, 1], [0, 1], "scale", bitexact=True, pow2=-120, rescaled=True)
            rel_job(run, "offset-big-n%d" % n, "C12", cf, A, 1, L, [1, 1], [1000000, 1], "affine")
        rel_job(run, "affine-n%d" % n, "C12", cf, A, 1, L, [3, 1], [5, 2], "affine")
        # "bit-exactly for dyadic offsets where the view only ever forms differences of inputs": x and x + 2^20 are both exact
        dif = [c for c in cf if c["k"] in ("HLNormalizer", "NoiseEliminationTechnology", "EhlersFisherTransform")] + [{"k": "EhlersFisherTransform", "n": n, "c": [E, E]}]
        rel_job(run, "offset-dyadic-n%d" % n, "C12", dif, A, 1, L, [1, 1], [1048576, 1], "affine", bitexact=True, invonly=True)
        rel_job(run, "neg-n%d" % n, "C12", cf, A, 1, L, [-1, 1], [0, 1], "neg", cfgs2=swap_minmax(cf))
    # the offset-invariant views over inner views that remove the offset themselves (CyberCycle, x - Sma(x)): x -> a*x + b reaches
    # the outer view as a pure scaling, so nothing of b may show (an outer view that peeks at the raw input would)
    remov = [{"k": "CyberCycle", "n": 2}, {"k": "Subtract", "c": [E, sma(2)]}]
    # (not NET: it depends on the ORDER of the inner outputs only, and values that tie in exact arithmetic are split by the rounding of b)
    outer_ = cfgs(["HLNormalizer", "Vsct", "CorrelationTrendIndicator"], [3]) + [{"k": "EhlersFisherTransform", "n": 3, "c": [E, ema(2)]}]
    chr_ = [with_leaf(o, i) if i["k"] != "Subtract" else dict(o, c=[i] + o.get("c", [E])[1:]) for o in outer_ for i in remov]
    for b_ in ([5, 2], [1024, 1]):
        rel_job(run, "affine-chain-b%d" % b_[0], "C12", chr_, [-2, 0, 1, 3], 1, 7, [3, 1], b_, "affine")
    # the optimised build and the f32 instantiation (a power of two is exact in both)
    rel_job(run, "scale2-release", "C12", c12_cfgs(3), [-2, 0, 1, 3], 1, 6, [2, 1], [0, 1], "scale", bitexact=True, profile="release")
    rel_job(run, "scale2-f32", "C12", c12_cfgs(3), [-2, 0, 1, 3], 1, 6, [2, 1], [0, 1], "scale", bitexact=True, flt="f32")
    # positive-domain views
    pos = [{"k": "LnReturn"}, {"k": "Drawdown"}]
    rel_job(run, "pos-scale2", "C12", pos, [1, 2, 4, 7], 1, 6 if tier == "quick" else 8, [2, 1], [0, 1], "scale", bitexact=True)
    rel_job(run, "pos-scale3", "C12", pos, [1, 2, 4, 7], 1, 6 if tier == "quick" else 8, [3, 1], [0, 1], "scale")
    return run.finish("every input sequence over the alphabet up to maxlen, run twice through the real view (x and a*x+b); "
                      "non-trivial = states in which the statement fixes a relation, the window is not flat and both runs report a value")

@check("C03")
def c03(tier):
    run = Run("C03", tier, "model_checking")
    W = ["Sma", "Cumulative", "Min", "Max", "Roc", "WelfordOnline", "Vst", "Vsct", "HLNormalizer", "BinaryEntropy", "CenterOfGravity",
         "CorrelationTrendIndicator", "NoiseEliminationTechnology", "Rsi", "MyRSI", "Alma"]
    def cf(n):
        v = cfgs(W, [n])
        if n >= 3:
            v += [{"k": "PolarizedFractalEfficiency", "n": n, "c": [E, sma(2)]}, {"k": "PolarizedFractalEfficiency", "n": n, "c": [E, sma(3)]}]
        return v
    # prefixes mix large foreign values with values of the suffix alphabet (ties between a leaving and an entering value)
    pairs = [([], [7]), ([100], [-50, 7]), ([7, 100, -50], [100]), ([-50, -50, 100, 7, 100], [7, 7]),
             ([3, 100, 0], [-2]), ([0, 0, 3, -2], [3, -50, 1, 0, 3])]
    if tier != "quick":
        pairs += [([100, 7], [7, 100]), ([1000000, -999999, 3], []), ([5] * 9, [100, -50] * 6)]
    # very different numbers of earlier updates (anything keyed to the total count: a periodic re-synchronisation, a counter that
    # wraps at 2^8 / 2^16): the prefix only costs the harness, the specification sees the common suffix
    rp = random.Random(303 + run.seed)
    pairs += [([rp.randint(-9, 9) for _ in range(300)], [rp.randint(-9, 9) for _ in range(1100)]),
              ([], [rp.randint(-9, 9) for _ in range(70000)])]
    # model level: the machine state is a function of the ghost window of the last K inputs (Apalache, all integers, all lengths)
    for m in ("Ind_Sma", "Ind_Ext", "Ind_MyRsi", "Ind_HL", "Ind_Count"):
        run.submit(apalache_job, m)
    plan = [(1, 4), (2, 6), (3, 7)] if tier == "quick" else [(1, 5), (2, 7), (3, 8), (4, 9), (5, 10)]
    for n, L in plan:
        A = [-2, 0, 1, 3] if L <= 5 else ([-2, 0, 3] if L <= 8 else [0, 3])
        for i, (p1, p2) in enumerate(pairs):
            mm = max([abs(x) for x in p1 + p2 + A])
            sc = {"cfgs": cf(n), "alphabet": A, "unit": 1, "maxlen": L, "prefix": p1, "maxmag": mm}
            sc2 = dict(sc); sc2["prefix"] = p2
            run.submit(p1_job, "mem-n%d-p%d" % (n, i), "MC_C03", sc, scope2=sc2, nontrivial_keys=("agree",))
    # the f32 instantiation and the optimised build (first three prefix pairs)
    for i, (p1, p2) in enumerate(pairs[:3]):
        mm = max([abs(x) for x in p1 + p2 + [3]])
        for tag, extra, kw in (("f32", {"float": "f32", "eps": [1, 100000]}, {}), ("release", {}, {"profile": "release"})):
            sc = dict({"cfgs": cf(3), "alphabet": [-2, 0, 3], "unit": 1, "maxlen": 6, "prefix": p1, "maxmag": mm}, **extra)
            run.submit(p1_job, "mem-%s-p%d" % (tag, i), "MC_C03", sc, scope2=dict(sc, prefix=p2), nontrivial_keys=("agree",), **kw)
    return run.finish("two real runs with different prefixes (lengths 0..12, magnitudes up to 1e6) and every common suffix over the alphabet; "
                      "non-trivial = states with at least K common values in which the view is not holding")

def c10_cfgs(n):
    v = cfgs(["Sma", "Ema", "Alma", "Cumulative", "SuperSmoother", "CyberCycle"], [n])
    v += [{"k": "RoofingFilter", "n": n, "m": 2}, {"k": "Ema", "n": n, "alpha": [1, 1]}]
    return v
LAG = [{"k": "LaguerreFilter", "g": g} for g in ([0, 1], [1, 2], [3, 4])]

@check("C10")
def c10(tier):
    run = Run("C10", tier, "model_checking")
    B = [-3, -2, -1, 0, 1, 2, 3]
    combos = [[1, 1], [1, -1], [2, -1], [-2, 1]]
    plan = [(1, 4), (2, 4), (3, 5)] if tier == "quick" else [(1, 5), (2, 5), (3, 5), (4, 6), (5, 6)]
    for n, L in plan:
        cf = c10_cfgs(n) + (LAG if n == 1 else [])
        run.submit(pair_job, "add-n%d" % n, {"cfgs": cf, "alphabet": B, "pair_alphabet": [-1, 0, 1], "combos": combos, "unit": 1, "maxlen": L})
        for a in ([-2, 1], [3, 1], [0, 1], [1, 3], [1000, 1], [1, 1000]):
            rel_job(run, "homog-n%d-a%d_%d" % (n, a[0], a[1]), "C10", cf, [-2, 0, 1, 3], 1, min(L + 1, 6), a, [0, 1], "scale")
    # superposition on the optimised build, in the f32 instantiation, and for chains of linear views (which are linear)
    cf2 = c10_cfgs(2) + LAG[:2]
    run.submit(pair_job, "add-release", {"cfgs": cf2, "alphabet": B, "pair_alphabet": [-1, 0, 1], "combos": combos, "unit": 1, "maxlen": 4}, profile="release")
    run.submit(pair_job, "add-f32", {"cfgs": cf2, "alphabet": B, "pair_alphabet": [-1, 0, 1], "combos": combos, "unit": 1, "maxlen": 4, "float": "f32", "eps": [1, 10000]})
    chl = [dict(o, c=[i]) for o in (sma(2), ema(2), {"k": "SuperSmoother", "n": 2}, {"k": "Alma", "n": 2}) for i in (ema(2), {"k": "Cumulative", "n": 2}, {"k": "CyberCycle", "n": 2}, LAG[1])]
    run.submit(pair_job, "add-chains", {"cfgs": chl, "alphabet": B, "pair_alphabet": [-1, 0, 1], "combos": combos, "unit": 1, "maxlen": 4})
    # the same stream in units of 2^-120 and 2^100 (answers converted back exactly): a linear view must answer bit-identically
    for n in (1, 2, 3):
        cf = c10_cfgs(n) + (LAG if n == 1 else [])
        for k in (-120, 100):
            rel_job(run, "units-n%d-p%d" % (n, k), "C10", cf, [-2, 0, 1, 3], 1, 6, [1, 1], [0, 1], "scale", bitexact=True, invonly=False, pow2=k, rescaled=True)
    return run.finish("pairs of input sequences (x, y) over {-1,0,1} with a*x+b*y for four (a,b), and every sequence with its multiple a*x "
                      "(a = -2, 3, 0, 1/3), each run through the real view; non-trivial = states where all runs report a value")

WINDOWED = ["Sma", "Cumulative", "Min", "Max", "WelfordOnline", "Vst", "Vsct", "HLNormalizer", "Roc", "BinaryEntropy", "Rsi", "MyRSI",
            "CenterOfGravity", "CorrelationTrendIndicator", "NoiseEliminationTechnology", "Alma", "Ema", "LaguerreRSI", "CyberCycle",
            "SuperSmoother", "TrendFlex", "ReFlex"]

def with_child(cfg, inner):
    """the same outer view over `inner` instead of Echo (first child slot)"""
    d = dict(cfg)
    c = list(d.get("c", []))
    if c:
        c[0] = inner
    else:
        c = [inner]
    d["c"] = c
    return d

def catalogue(n, positive=False, m=2):
    """every kind of view of the crate with window n over Echo (positive: include the positive-domain views)"""
    v = cfgs(WINDOWED, [n])
    v += [{"k": "RoofingFilter", "n": n, "m": m}, {"k": "EhlersFisherTransform", "n": n, "c": [E, ema(2)]},
          {"k": "PolarizedFractalEfficiency", "n": n, "c": [E, ema(2)]}, {"k": "PolarizedFractalEfficiency", "n": n, "c": [E, sma(2)]},
          {"k": "LaguerreFilter", "g": [1, 2]}, {"k": "WelfordRolling"}, E, {"k": "Constant", "v": [3, 2]},
          {"k": "GTE", "v": [1, 2]}, {"k": "LTE", "v": [1, 2]}, {"k": "Tanh"},
          {"k": "Add", "c": [E, sma(n)]}, {"k": "Subtract", "c": [sma(n), E]}, {"k": "Multiply", "c": [E, {"k": "Roc", "n": n}]},
          {"k": "Divide", "c": [E, {"k": "Constant", "v": [3, 2]}]}]
    # the two-slot views with a moving average that overshoots its input range (a second-order smoother)
    v += [{"k": "EhlersFisherTransform", "n": n, "c": [E, {"k": "SuperSmoother", "n": 4}]}]
    if n >= 3:
        v += [{"k": "PolarizedFractalEfficiency", "n": n, "c": [E, {"k": "SuperSmoother", "n": 3}]}]
    if positive:
        v += [{"k": "Drawdown"}, {"k": "LnReturn"}, {"k": "Divide", "c": [sma(n), E]}]
    return v

def label(cfg):
    k = cfg.get("k", "?")
    inner = [c.get("k") for c in cfg.get("c", []) if c.get("k") not in ("Echo",)]
    return k + ("(" + ",".join(inner) + ")" if inner else "")

@check("C07")
def c07(tier):
    run = Run("C07", tier, "model_checking")
    def bounded(n):
        v = cfgs(["Rsi", "MyRSI", "HLNormalizer", "CorrelationTrendIndicator", "NoiseEliminationTechnology", "LaguerreRSI", "BinaryEntropy",
                  "WelfordOnline", "Vsct", "Min", "Max", "Sma", "Alma"], [n])
        v += [E, {"k": "Tanh"}, {"k": "GTE", "v": [1, 2]}, {"k": "LTE", "v": [1, 2]}, {"k": "WelfordRolling"},
              {"k": "EhlersFisherTransform", "n": n, "c": [E, ema(2)]}, {"k": "EhlersFisherTransform", "n": n, "c": [E, E]}]
        if n >= 3:
            v += [{"k": "PolarizedFractalEfficiency", "n": n, "c": [E, ema(2)]}, {"k": "PolarizedFractalEfficiency", "n": n, "c": [E, sma(3)]}]
        return v
    plan = [(2, 5), (3, 6), (4, 7)] if tier == "quick" else [(2, 6), (3, 7), (4, 8), (5, 9), (6, 10)]
    for n, L in plan:
        A = [-2, 0, 1, 3] if L <= 6 else [-2, 0, 3]
        run.submit(p1_job, "rng-int-n%d" % n, "MC_Obs", {"prop": "C07", "cfgs": bounded(n), "alphabet": A, "unit": 1, "maxlen": L},
               nontrivial_keys=None, view_label=label)
        run.submit(p1_job, "rng-dec-n%d" % n, "MC_Obs", {"prop": "C07", "cfgs": bounded(n), "alphabet": [-7, 0, 3, 12][:len(A)], "unit": 10, "maxlen": L},
               nontrivial_keys=None, view_label=label)
        pos = [{"k": "Drawdown"}, {"k": "CenterOfGravity", "n": n}, {"k": "Min", "n": n}, {"k": "Max", "n": n}, sma(n), {"k": "Alma", "n": n}, E]
        run.submit(p1_job, "rng-pos-n%d" % n, "MC_Obs", {"prop": "C07", "cfgs": pos, "alphabet": [1, 3, 10, 11][:len(A)], "unit": 10, "maxlen": L},
               nontrivial_keys=None, view_label=label)
    # the bounded views over what an inner view delivers (a lagging average, held values): the range is the outer view's own
    chb = [with_leaf(c, i) for c in bounded(3) if c["k"] not in ("Echo", "Min", "Max", "Sma", "Alma", "PolarizedFractalEfficiency") for i in (sma(3), ema(2), {"k": "Roc", "n": 1})]
    run.submit(p1_job, "rng-chain", "MC_Obs", {"prop": "C07", "cfgs": chb, "alphabet": [0, 3, 6, 9], "unit": 1, "maxlen": 6}, nontrivial_keys=None, view_label=label)
    run.submit(p1_job, "rng-f32", "MC_Obs", {"prop": "C07", "cfgs": [c for c in bounded(3) if c["k"] != "PolarizedFractalEfficiency"],      # (KF1 is attributed by comparing with the f64 formula value)
                                          "alphabet": [-2, 0, 1, 3], "unit": 1, "maxlen": 6, "float": "f32"}, nontrivial_keys=None, view_label=label)
    run.submit(p1_job, "rng-release", "MC_Obs", {"prop": "C07", "cfgs": bounded(3), "alphabet": [-2, 0, 1, 3], "unit": 1, "maxlen": 6}, profile="release", nontrivial_keys=None, view_label=label)
    rnd = random.Random(707 + run.seed)
    adv = []
    for n in ((2, 5, 16) if tier == "quick" else (2, 3, 5, 8, 16, 33, 64)):
        for cfg in bounded(max(n, 3)) + [{"k": "CenterOfGravity", "n": n}, {"k": "Drawdown"}]:
            if cfg["k"] == "PolarizedFractalEfficiency":
                continue      # its range clause is the known finding KF1; attributed only where the specification's own value is compared (P1)
            posonly = cfg["k"] in ("CenterOfGravity", "Drawdown")
            for unit, lo, hi in ((10, 1 if posonly else -999, 999), (1000, 10 if posonly else -9999, 9999)):
                adv.append({"cfg": cfg, "unit": unit, "mode": "range", "eps": [1, 1], "float": "f64",
                            "xs": shapes(rnd, cfg.get("n", n), lo, hi, 400 if tier == "quick" else 4000), "k": 1})
    # "any dynamic range, constant stretches following volatile ones, monotone runs": values up to 1e6 with three decimals, then
    # more than a window of something nine decades smaller
    for n in ((2, 3, 5, 16) if tier == "quick" else (2, 3, 4, 5, 8, 16, 33)):
        for cfg in bounded(max(n, 3) if n > 2 else 2) + [{"k": "CenterOfGravity", "n": n}, {"k": "Drawdown"}]:
            if cfg["k"] == "PolarizedFractalEfficiency":
                continue
            posonly = cfg["k"] in ("CenterOfGravity", "Drawdown")
            adv.append({"cfg": cfg, "unit": 1000, "mode": "range", "eps": [1, 1], "float": "f64",
                        "xs": residue_runs(rnd, cfg.get("n", n), 300 if tier == "quick" else 3000, signed=not posonly), "k": 1})
    # ... and thirty decades (inputs (m / unit) * 2^e) for the order clause Min <= Sma, Alma <= Max
    for n in (2, 3, 5):
        for cfg in (sma(n), {"k": "Alma", "n": n}):
            adv.append({"cfg": cfg, "unit": 1000, "mode": "range", "eps": [1, 1], "float": "f64", "pairs": True, "xs": extreme_runs(rnd, n, 200), "k": 1})
    for n in (3, 5):
        adv.append({"cfg": {"k": "CenterOfGravity", "n": n}, "unit": 1000, "mode": "range", "eps": [1, 1], "float": "f64", "pairs": True,
                    "xs": extreme_runs(rnd, n, 200, signed=False), "k": 1})
    # the variance-type views on the same thirty decades, starting with tiny values (an accumulator initialised to anything but
    # "nothing seen yet" shows in the first answers only when they are tiny)
    for cfg in ({"k": "WelfordRolling"}, {"k": "WelfordOnline", "n": 3}, {"k": "Vsct", "n": 3}, {"k": "HLNormalizer", "n": 3}, {"k": "Rsi", "n": 3}, {"k": "MyRSI", "n": 3}):
        adv.append({"cfg": cfg, "unit": 1000, "mode": "range", "eps": [1, 1], "float": "f64", "pairs": True,
                    "xs": [[rnd.randint(1, 2000), -40] for _ in range(6)] + extreme_runs(rnd, 3, 200), "k": 1})
    third = len(adv) // 3 + 1
    for i in range(3):
        run.submit(p3_stream_job, "rng-adv-%d" % i, "C07", adv[i * third:(i + 1) * third])
    return run.finish("every input sequence over the alphabet up to maxlen for every bounded view; non-trivial = states in which a bounded "
                      "view reports a value (the range predicate is evaluated there)")

@check("C08")
def c08(tier):
    run = Run("C08", tier, "model_checking")
    plan = [(1, 4), (2, 5), (3, 6), (4, 7)] if tier == "quick" else [(1, 5), (2, 6), (3, 7), (4, 8), (5, 9), (6, 10)]
    for n, L in plan:
        for prof in ("dev", "release"):
            if prof == "release" and tier == "quick" and n == 4:
                continue
            run.submit(p1_job, "rdy-n%d-%s" % (n, prof), "MC_Obs", {"prop": "C08", "cfgs": catalogue(n), "alphabet": [-1, 0, 1] if L <= 7 else [-1, 1], "unit": 1, "maxlen": L},
                   profile=prof, nontrivial_keys=("ready.yes", "ready.no"), view_label=label)
            run.submit(p1_job, "rdy-flat-n%d-%s" % (n, prof), "MC_Obs", {"prop": "C08", "cfgs": catalogue(n), "alphabet": [0, 5], "unit": 1, "maxlen": L + 2},
                   profile=prof, nontrivial_keys=("ready.yes", "ready.no"), view_label=label)
            run.submit(p1_job, "rdy-pos-n%d-%s" % (n, prof), "MC_Obs", {"prop": "C08", "cfgs": catalogue(n, positive=True), "alphabet": [1, 2, 4], "unit": 1, "maxlen": L},
                   profile=prof, nontrivial_keys=("ready.yes", "ready.no"), view_label=label)
    # readiness and finiteness do not depend on the unit or on the float type: units of 2^-70 / 2^60, f32
    for n in (2, 3):
        cat_ = [c for c in catalogue(n) if c["k"] not in ("Constant", "GTE", "LTE", "Add", "Subtract", "Divide")]
        for k_ in (-70, 60):
            run.submit(p1_job, "rdy-units-n%d-p%d" % (n, k_), "MC_Obs", {"prop": "C08", "cfgs": cat_, "alphabet": [-1, 0, 1], "unit": 1, "maxlen": 6, "pow2": k_},
                       nontrivial_keys=("ready.yes", "ready.no"), view_label=label)
        for prof_ in ("dev", "release"):      # (a debug build turns a NaN into a panic, which is C15's subject; the release build reports it)
            run.submit(p1_job, "rdy-f32-n%d-%s" % (n, prof_), "MC_Obs", {"prop": "C08", "cfgs": catalogue(n), "alphabet": [-1, 0, 1], "unit": 1, "maxlen": 6, "float": "f32"},
                       profile=prof_, nontrivial_keys=("ready.yes", "ready.no"), view_label=label)
    # f32: a jump 2^25 times the moves that follow (a small move absorbed by a large running sum), finite and no relapse; and
    # magnitudes of a few hundred through every view over Tanh (exp overflows early in f32)
    rj = random.Random(818 + run.seed)
    for prof in ("dev", "release"):
        sj = []
        for cfg in catalogue(3) + [c for c in catalogue(2) if c["k"] in ("Rsi", "MyRSI", "Roc", "HLNormalizer", "Vsct", "Vst", "WelfordOnline", "CorrelationTrendIndicator")]:
            xs = []
            while len(xs) < 200:
                xs += [[rj.randint(1, 4), 25] for _ in range(rj.randint(1, 4))] + [[rj.randint(1, 8), 0] for _ in range(rj.randint(2, 7))]
                # ... and small moves AT the high level: (2^23 + k) * 4, with repeats
                hv = [[8388608 + rj.randint(0, 3), 2] for _ in range(2)]
                xs += ([[-rj.randint(1, 2), 25]] if rj.random() < 0.5 else []) + [hv[0], hv[1], hv[1], hv[0], hv[0]][:rj.randint(2, 5)] + [[rj.randint(1, 8), 0]]
                # ... and a monotone run of such moves longer than the window (the jump leaves, the absorbed moves stay)
                # ... a jump, one absorbed move, then that value repeated for a window: all changes in the window are zero, yet the
                # value before the window differs
                xs += [[rj.randint(1, 8), 0], hv[0], [hv[0][0] + 1, 2], [hv[0][0] + 1, 2], [hv[0][0] + 1, 2], [rj.randint(1, 8), 0]]
                b0 = 8388608 + rj.randint(0, 3)
                xs += ([[-1, 25]] if rj.random() < 0.5 else []) + [[b0 + j, 2] for j in range(6)][::rj.choice([1, -1])] + [[rj.randint(1, 8), 0]]
            sj.append({"cfg": cfg, "unit": 1, "mode": "alive", "eps": [1, 1], "float": "f32", "pairs": True, "xs": xs[:200], "k": 1})
        run.submit(p3_stream_job, "rdy-f32-jumps-%s" % prof, "C08", sj, profile=prof)
    big = [with_child(o, {"k": "Tanh"}) for o in catalogue(2) if o["k"] not in ("Echo", "Constant", "Add", "Subtract", "Multiply", "Divide", "Tanh")] + [{"k": "Tanh"}]
    for flt in ("f32", "f64"):
        run.submit(p1_job, "rdy-large-%s" % flt, "MC_Obs", {"prop": "C08", "cfgs": big, "alphabet": [-300, 0, 50, 300], "unit": 1, "maxlen": 4, "float": flt},
                   nontrivial_keys=("ready.yes", "ready.no"), view_label=label)
    # chains: an inner view delays / thins what the outer one is delivered
    inners = [sma(2), {"k": "Roc", "n": 1}, {"k": "LaguerreRSI", "n": 2}] + ([sma(3), {"k": "Rsi", "n": 2}] if tier != "quick" else [])
    for inner in inners:
        ch = [with_child(o, inner) for o in catalogue(2) if o["k"] not in ("Echo", "Constant", "Add", "Subtract", "Multiply", "Divide")]
        run.submit(p1_job, "rdy-chain-%s%s" % (inner["k"], inner.get("n", "")), "MC_Obs", {"prop": "C08", "cfgs": ch, "alphabet": [-1, 0, 1], "unit": 1, "maxlen": 6},
               nontrivial_keys=("ready.yes", "ready.no", "undelivered"), view_label=label)
    ch = [with_child(o, {"k": "LnReturn"}) for o in catalogue(2) if o["k"] not in ("Echo", "Constant", "Add", "Subtract", "Multiply", "Divide")]
    run.submit(p1_job, "rdy-chain-LnReturn", "MC_Obs", {"prop": "C08", "cfgs": ch, "alphabet": [1, 2, 4], "unit": 1, "maxlen": 6},
           nontrivial_keys=("ready.yes", "ready.no", "undelivered"), view_label=label)
    # very long runs (beyond 2^16 updates): a counter that wraps, a warm-up gate that re-closes, an accumulator that overflows
    rnd = random.Random(808 + run.seed)
    nlong = 70000 if tier == "quick" else 300000
    xs = walk(rnd, nlong, 100, 9000, 300)
    for prof in ("dev", "release"):
        # every answer around the steps where a narrow counter would wrap (2^8, 2^15, 2^16), every 1000th elsewhere
        dense = [[250, 290], [32760, 32800], [65530, 65570]]
        st = [{"cfg": cfg, "unit": 100, "mode": "alive", "eps": [1, 1], "float": "f64", "xs": xs, "k": 1000, "dense": dense}
              for n in (3, 20) for cfg in catalogue(n, positive=True)]
        run.submit(p3_stream_job, "rdy-long-%s" % prof, "C08", st, profile=prof)
    return run.finish("every input sequence over the alphabet up to maxlen for every view of the catalogue (debug and release builds) and "
                      "two-level chains; non-trivial = states in which the documentation fixes readiness (yes/no) or the view was delivered nothing")

@check("C15")
def c15(tier):
    run = Run("C15", tier, "model_checking")
    nk = ("nopanic",)
    for prof in ("dev", "release"):
        for n, L in ([(1, 4), (2, 5), (3, 6), (4, 7)] if tier == "quick" else [(1, 5), (2, 6), (3, 7), (4, 8), (5, 9)]):
            run.submit(p1_job, "np-n%d-%s" % (n, prof), "MC_Obs", {"prop": "C15", "cfgs": catalogue(n), "alphabet": [-1, 0, 1], "unit": 1, "maxlen": L},
                   profile=prof, nontrivial_keys=nk, view_label=label)
            run.submit(p1_job, "np-pos-n%d-%s" % (n, prof), "MC_Obs", {"prop": "C15", "cfgs": catalogue(n, positive=True), "alphabet": [1, 2, 4], "unit": 2, "maxlen": L},
                   profile=prof, nontrivial_keys=nk, view_label=label)
        if prof == "dev":
            bigc = [with_child(o, {"k": "Tanh"}) for o in catalogue(2) if o["k"] not in ("Echo", "Constant", "Add", "Subtract", "Multiply", "Divide", "Tanh")] + [{"k": "Tanh"}]
            run.submit(p1_job, "np-f32-large", "MC_Obs", {"prop": "C15", "cfgs": bigc, "alphabet": [-300, 0, 50, 300], "unit": 1, "maxlen": 4, "float": "f32"},
                       profile=prof, nontrivial_keys=nk, view_label=label)
            for n in (1, 2, 3):
                run.submit(p1_job, "np-f32-n%d" % n, "MC_Obs", {"prop": "C15", "cfgs": catalogue(n), "alphabet": [-1, 0, 1], "unit": 1, "maxlen": 5, "float": "f32"},
                           profile=prof, nontrivial_keys=nk, view_label=label)
        # windows longer than the stream / long windows: constant and two-symbol streams (index arithmetic does not depend on data)
        big = list(range(5, 65)) if tier != "quick" else [5, 6, 7, 8, 10, 12, 16, 20, 24, 31, 32, 33, 40, 41, 48, 63, 64]
        allbig = [c for n in big for c in catalogue(n, m=(n % 3) + 1) if "n" in c or c["k"] in ("Add", "Subtract", "Multiply")]
        for a in ([0], [1]):
            run.submit(p1_job, "np-const%d-%s" % (a[0], prof), "MC_Obs", {"prop": "C15", "cfgs": allbig, "alphabet": a, "unit": 1, "maxlen": 68},
                   profile=prof, nontrivial_keys=nk, view_label=label)
        mid = [c for n in (5, 6, 7, 8) for c in catalogue(n) if "n" in c]
        run.submit(p1_job, "np-mid-%s" % prof, "MC_Obs", {"prop": "C15", "cfgs": mid, "alphabet": [-1, 2], "unit": 1, "maxlen": 11},
               profile=prof, nontrivial_keys=nk, view_label=label)
        # two-level chains
        inners = [sma(2), {"k": "Roc", "n": 1}, {"k": "Cumulative", "n": 1}] if tier == "quick" else [c for c in catalogue(2) if c["k"] not in ("Constant",)]
        for i, inner in enumerate(inners):
            ch = [with_child(o, inner) for n in (1, 3) for o in catalogue(n) if o["k"] not in ("Echo", "Constant")]
            run.submit(p1_job, "np-chain%d-%s" % (i, prof), "MC_Obs", {"prop": "C15", "cfgs": ch, "alphabet": [-1, 0, 1], "unit": 1, "maxlen": 5},
                   profile=prof, nontrivial_keys=nk, view_label=label)
    # larger windows on varied (non-constant) recorded streams, debug and release
    rnd = random.Random(1515 + run.seed)
    for prof in ("dev", "release"):
        st = []
        for n in ([5, 6, 7, 8, 10, 12, 13, 16, 20, 24, 31, 32, 33, 40, 41, 48, 63, 64, 100, 127, 128, 129, 200, 256, 257] if tier == "quick"
                  else list(range(5, 65)) + [100, 127, 128, 129, 200, 255, 256, 257, 500]):
            xs = shapes(rnd, n, -30, 30, 2 * n + 12)
            for cfg in catalogue(n, m=(n % 3) + 1):
                if "n" in cfg or cfg["k"] in ("Add", "Subtract", "Multiply"):
                    st.append({"cfg": cfg, "unit": 2, "mode": "nopanic", "eps": [1, 1], "float": "f64", "xs": xs, "k": 1})
        run.submit(p3_stream_job, "np-shapes-%s" % prof, "C15", st, profile=prof)
    xs = walk(rnd, 70000 if tier == "quick" else 300000, 100, 9000, 300)
    for prof in ("dev", "release"):
        st = [{"cfg": cfg, "unit": 100, "mode": "alive", "eps": [1, 1], "float": "f64", "xs": xs, "k": 2000,
               "dense": [[250, 290], [32760, 32800], [65530, 65570]]}
              for n in (2, 7) for cfg in catalogue(n, positive=True)]
        run.submit(p3_stream_job, "np-long-%s" % prof, "C15", st, profile=prof)
    # interleavings of update and last: behaviours of SFTwin (a polled instance, an unpolled twin, clones), judged for panics
    for n in (1, 3):
        cat = [c for c in catalogue(n, positive=True) if c["k"] not in ("Add",)]
        run.submit(p2_job, "np-twin-n%d" % n, {"cfgs": cat, "inputs": [1, 2], "unit": 1, "slots": 4, "depth": 99, "steps": 4, "nopoll": False}, "C15",
                   exhaustive=True, gen="SFTwin")
    run.submit(apalache_job, "Ind_Count")       # the usize counter of BinaryEntropy never underflows, for all integer inputs and lengths
    # model level: the implementation-shaped machines never "panic" (usize underflow, empty unwrap) for any window 1..64
    for a in ([0], [1], [-1, 2]):
        ns = [1, 2, 3, 4, 5, 8, 16, 33, 64] if tier == "quick" else list(range(1, 65))
        ml = 12 if len(a) == 2 else 68
        ns2 = [n for n in ns if len(a) == 1 or n <= 8]
        run.submit(model_job, "np-model-%d" % a[0], {"cfgs": [c for n in ns2 for c in catalogue(n, positive=(a == [1])) if modelled(c)], "alphabet": a, "unit": 1, "maxlen": ml, "nodef": True})
    return run.finish("every input sequence over the alphabet up to maxlen, for every view of the catalogue, windows 1..64, two-level chains, "
                      "debug-assertion and release builds; non-trivial = observations of accepted configurations (each is checked for panic)")

def tapped(inner, tid, pid):
    """Tap<inner<Probe>>: the inner view with observation points above and below it"""
    return {"k": "Tap", "id": tid, "c": [with_leaf(inner, {"k": "Probe", "id": pid})]}

def with_leaf(cfg, leaf):
    """the same chain with `leaf` at its bottom (first-child slots all the way down)"""
    d = dict(cfg)
    c = list(d.get("c", []))
    if c and c[0].get("k") not in ("Echo", "Probe"):
        c[0] = with_leaf(c[0], leaf)
    elif c:
        c[0] = leaf
    else:
        c = [leaf]
    d["c"] = c
    return d

def c01_pairs(outers, inners):
    """[composite, decomposition, composite, decomposition, ...]"""
    out = []
    for o in outers:
        for i in inners:
            if o["k"] in ("PolarizedFractalEfficiency", "EhlersFisherTransform"):
                comp = dict(o); comp["c"] = [tapped(i, 1, 0), tapped(o["c"][1], 5, 4)]
            else:
                comp = with_child(o, tapped(i, 1, 0))
            out += [comp, {"k": "Decomp", "outer": o, "inner": i}]
    return out

def c01_label(cfg):
    def inner_of(t):
        return t["c"][0]["k"] if t.get("k") == "Tap" else t.get("k")
    if cfg.get("k") == "Decomp":
        return cfg["outer"]["k"] + "/" + cfg["inner"]["k"]
    return cfg["k"] + "/" + ",".join(inner_of(c) for c in cfg.get("c", [])[:2])

@check("C01")
def c01(tier):
    run = Run("C01", tier, "model_checking")
    def unary(n):
        return [c for c in catalogue(n, positive=True) if c["k"] not in ("Echo", "Constant", "Add", "Subtract", "Multiply", "Divide")]
    def inners(n):
        # Echo and Constant are leaves themselves (the Probe stands in for Echo)
        return [c for c in catalogue(n, positive=True) if c["k"] not in ("Add", "Subtract", "Multiply", "Divide", "Echo", "Constant")]
    L = 4 if tier == "quick" else 5
    # (outer window, inner window); window 1 is its own code path in several views (a queue that empties on eviction)
    combos = [(3, 2), (1, 2)] if tier == "quick" else [(2, 3), (3, 2), (1, 3), (3, 1), (1, 2), (2, 1)]
    for nb, na in combos:
        outs = unary(nb)
        for i in range(0, len(outs), 4):
            grp = outs[i:i + 4]
            run.submit(p1_job, "chain-%d-%d-%d" % (nb, na, i // 4), "MC_C01",
                       {"cfgs": c01_pairs(grp, inners(na)), "alphabet": [1, 2, 4], "unit": 1, "maxlen": L, "taps": True},
                       cfgfile="MC_C01.cfg", cfg_fraction=2, nontrivial_keys=("same-answer",), view_label=c01_label)
        if (nb, na) == combos[0]:
            # the same composition law on the optimised build and in f32 (a sample of outer views over every inner view)
            smp = [o for o in outs if o["k"] in ("Sma", "HLNormalizer", "Rsi", "Ema", "LnReturn", "Tanh", "WelfordOnline", "EhlersFisherTransform")]
            for tag, kw, sx in (("release", {"profile": "release"}, {}), ("f32", {}, {"float": "f32"})):
                for i in range(0, len(smp), 4):
                    run.submit(p1_job, "chain-%s-%d" % (tag, i // 4), "MC_C01",
                               dict({"cfgs": c01_pairs(smp[i:i + 4], inners(na)), "alphabet": [1, 2, 4], "unit": 1, "maxlen": L, "taps": True}, **sx),
                               cfgfile="MC_C01.cfg", cfg_fraction=2, nontrivial_keys=("same-answer",), view_label=c01_label, **kw)
        if (nb, na) == combos[0]:
            # f32, raw inputs near 100 with moves of 1: inner outputs (returns, rates) are tiny next to the raw input - nothing of the
            # raw input's magnitude may reach the outer view
            flex = [{"k": "TrendFlex", "n": 3}, {"k": "ReFlex", "n": 3}, {"k": "Vsct", "n": 3}, {"k": "MyRSI", "n": 3}]
            tiny = [{"k": "LnReturn"}, {"k": "Roc", "n": 1}, {"k": "CyberCycle", "n": 2}]
            run.submit(p1_job, "chain-f32-tiny", "MC_C01", {"cfgs": c01_pairs(flex, tiny), "alphabet": [100, 101, 103], "unit": 1, "maxlen": L + 2, "taps": True, "float": "f32"},
                       cfgfile="MC_C01.cfg", cfg_fraction=2, nontrivial_keys=("same-answer",), view_label=c01_label)
        # a second alphabet with zero and negatives for the views whose domain admits it
        nopos = [o for o in unary(nb) if o["k"] not in ("LnReturn", "Drawdown")]
        inn = [c for c in inners(na) if c["k"] not in ("LnReturn", "Drawdown", "Divide")][:12 if tier == "quick" else 99]
        for i in range(0, len(nopos), 8):
            run.submit(p1_job, "chain-neg-%d-%d-%d" % (nb, na, i // 8), "MC_C01",
                       {"cfgs": c01_pairs(nopos[i:i + 8], inn), "alphabet": [-2, 0, 3], "unit": 2, "maxlen": L, "taps": True},
                       cfgfile="MC_C01.cfg", cfg_fraction=2, nontrivial_keys=("same-answer",), view_label=c01_label)
    # three levels: the inner view is itself a chain (a view over a view that withholds, holds or normalises)
    n2_ = lambda k, c=None: dict({"k": k, "n": 2}, **({"c": [c]} if c else {}))
    deep = [n2_("Sma", {"k": "Roc", "n": 1}), n2_("HLNormalizer", n2_("Sma")), n2_("Ema", n2_("LaguerreRSI")), n2_("Max", n2_("Cumulative")),
            n2_("Roc", n2_("WelfordOnline")), {"k": "Tanh", "c": [n2_("MyRSI")]},
            # inner views that answer (non-zero) before their first update: the outer view may learn nothing from last() ahead of update()
            {"k": "Add", "c": [{"k": "Drawdown"}, {"k": "Constant", "v": [3, 2]}]}, {"k": "Add", "c": [n2_("HLNormalizer"), {"k": "Constant", "v": [3, 2]}]},
            {"k": "Subtract", "c": [n2_("CorrelationTrendIndicator"), {"k": "Constant", "v": [-5, 4]}]}]
    for nb in ((2,) if tier == "quick" else (1, 2, 3)):
        outs = unary(nb)
        for i in range(0, len(outs), 8):
            run.submit(p1_job, "chain3-%d-%d" % (nb, i // 8), "MC_C01",
                       {"cfgs": c01_pairs(outs[i:i + 8], deep), "alphabet": [1, 2, 4], "unit": 1, "maxlen": L + 1, "taps": True},
                       cfgfile="MC_C01.cfg", cfg_fraction=2, nontrivial_keys=("same-answer",), view_label=c01_label)
    # binary combinators over every pair of children
    kids = [c for c in catalogue(2, positive=True) if c["k"] not in ("Add", "Subtract", "Multiply", "Divide", "Constant", "Echo")]
    if tier == "quick":
        kids = kids[::3]
    for b in ("Add", "Subtract", "Multiply", "Divide"):
        cf = []
        for x in kids:
            for y in kids:
                cf += [{"k": b, "c": [tapped(x, 1, 0), tapped(y, 3, 2)]}, {"k": "Decomp", "outer": E, "inner": E}]
        run.submit(p1_job, "bin-%s" % b, "MC_C01", {"cfgs": cf, "alphabet": [1, 2, 4], "unit": 1, "maxlen": L, "taps": True},
                   cfgfile="MC_C01.cfg", cfg_fraction=2, nontrivial_keys=("forward-once",), view_label=c01_label)
        # zeros and sign changes for the children whose domain admits them
        # children that answer from the first value on, next to children that warm up or withhold values
        n2 = lambda k: {"k": k, "n": 2}
        kz = [n2("Cumulative"), n2("Min"), n2("HLNormalizer"), n2("Roc"), n2("CenterOfGravity"), {"k": "Tanh"}, {"k": "GTE", "v": [0, 1]},
              n2("Sma"), n2("Ema"), n2("Rsi"), n2("MyRSI"), n2("SuperSmoother"), n2("WelfordOnline"), n2("LaguerreRSI")]
        if tier == "quick":
            kz = kz[::2] + [n2("Sma")]
        cfz = []
        for x in kz:
            for y in kz:
                cfz += [{"k": b, "c": [tapped(x, 1, 0), tapped(y, 3, 2)]}, {"k": "Decomp", "outer": E, "inner": E}]
        run.submit(p1_job, "bin-zero-%s" % b, "MC_C01", {"cfgs": cfz, "alphabet": [-2, 0, 3], "unit": 2, "maxlen": L, "taps": True},
                   cfgfile="MC_C01.cfg", cfg_fraction=2, nontrivial_keys=("forward-once",), view_label=c01_label)
    return run.finish("every input sequence over the alphabet up to maxlen for every (outer, inner) pair of the catalogue and every binary "
                      "combinator over pairs of children; non-trivial = states in which composite and decomposition answers are compared "
                      "(binary nodes: states in which the update-forwarding pattern is checked)")

def chains2(outers, inner):
    return [with_child(o, inner) for o in outers if o["k"] not in ("Echo", "Constant")]

@check("C17")
def c17(tier):
    run = Run("C17", tier, "model_checking")
    num = 400 if tier == "quick" else 4000
    depth = 22 if tier == "quick" else 40
    for n in (1, 2, 3):
        cat = catalogue(n, positive=True)
        run.submit(p2_job, "sf-pos-n%d" % n, {"cfgs": cat, "inputs": [1, 2, 3], "unit": 1, "slots": 3, "depth": depth}, "C17", num=num, twice=True)
        cat2 = [c for c in catalogue(n) if c["k"] != "Divide"]
        run.submit(p2_job, "sf-neg-n%d" % n, {"cfgs": cat2, "inputs": [-3, 0, 1], "unit": 2, "slots": 3, "depth": depth}, "C17", num=num, twice=True)
    # the same kind with different parameters, and with neighbouring window lengths, side by side: nothing derived from one
    # instance's parameters (a coefficient table, a kernel) may reach another instance; every program is also executed a second
    # time in another process, thread and order (twice)
    par = []
    for n in (2, 3):
        par += [{"k": "Alma", "n": n}, {"k": "Alma", "n": n, "sigma": [3, 1], "offset": [1, 2]}, ema(n), {"k": "Ema", "n": n, "alpha": [1, 1]},
                {"k": "RoofingFilter", "n": n, "m": 2}, {"k": "RoofingFilter", "n": n, "m": 3}, {"k": "SuperSmoother", "n": n},
                {"k": "LaguerreRSI", "n": n}, {"k": "CyberCycle", "n": n}, {"k": "TrendFlex", "n": n + 1}, {"k": "ReFlex", "n": n + 1},
                {"k": "EhlersFisherTransform", "n": n, "c": [E, ema(2)]}, {"k": "EhlersFisherTransform", "n": n, "c": [E, ema(3)]},
                {"k": "PolarizedFractalEfficiency", "n": n + 1, "c": [E, ema(2)]}, {"k": "PolarizedFractalEfficiency", "n": n + 1, "c": [E, sma(2)]},
                {"k": "CorrelationTrendIndicator", "n": n + 1}, {"k": "CenterOfGravity", "n": n}]
    par += [{"k": "LaguerreFilter", "g": g} for g in ([1, 2], [3, 4])] + [{"k": "GTE", "v": v} for v in ([1, 2], [5, 2])] + \
           [{"k": "LTE", "v": v} for v in ([1, 2], [5, 2])] + [{"k": "Constant", "v": v} for v in ([3, 2], [-1, 4])]
    run.submit(p2_job, "sf-params", {"cfgs": par, "inputs": [1, 2, 4], "unit": 1, "slots": 3, "depth": depth}, "C17", num=2 * num, twice=True)
    run.submit(p2_job, "sf-f32", {"cfgs": catalogue(2, positive=True), "inputs": [1, 2, 3], "unit": 1, "slots": 3, "depth": depth, "float": "f32"}, "C17", num=num, twice=True)
    ch = chains2(catalogue(2, positive=True), sma(2)) + chains2(catalogue(3, positive=True), {"k": "Roc", "n": 1}) + chains2(catalogue(2, positive=True), {"k": "LaguerreRSI", "n": 2})
    run.submit(p2_job, "sf-chains", {"cfgs": ch, "inputs": [1, 2, 4], "unit": 1, "slots": 3, "depth": depth}, "C17", num=2 * num)
    # twins and clones of one configuration, every polling pattern and clone position (SFTwin.tla), all views
    for n in (1, 2, 3):
        cat = [c for c in catalogue(n, positive=True) if c["k"] not in ("Add",)]
        st = 4 if tier == "quick" else 5
        half = len(cat) // 2
        for h, part in enumerate((cat[:half], cat[half:])):
            run.submit(p2_job, "twin-n%d-%d" % (n, h), {"cfgs": part, "inputs": [1, 2], "unit": 1, "slots": 4, "depth": 99, "steps": st}, "C17",
                       exhaustive=True, gen="SFTwin")
    stat = [c for c in catalogue(3, positive=True) if c["k"] in ("WelfordOnline", "Vst", "Vsct", "WelfordRolling", "HLNormalizer", "CorrelationTrendIndicator",
                                                                "CenterOfGravity", "NoiseEliminationTechnology", "Rsi", "MyRSI", "Sma", "Alma")]
    run.submit(p2_job, "twin-3sym", {"cfgs": stat, "inputs": [1, 3, 2], "unit": 1, "slots": 4, "depth": 99, "steps": 4}, "C17", exhaustive=True, gen="SFTwin")
    # longer behaviours at window 4 (a clone taken while a hand-rolled Clone would have to rebuild run lengths, held values, extrema)
    stateful = [c for c in catalogue(4, positive=True) if c["k"] in ("Rsi", "MyRSI", "WelfordOnline", "Vst", "Vsct", "Roc", "HLNormalizer", "Min", "Max",
                                                                    "CenterOfGravity", "CorrelationTrendIndicator", "Alma", "BinaryEntropy", "Sma", "Cumulative",
                                                                    "EhlersFisherTransform", "PolarizedFractalEfficiency", "CyberCycle", "TrendFlex", "LaguerreRSI")]
    run.submit(p2_job, "twin-long", {"cfgs": stateful, "inputs": [1, 2], "unit": 1, "slots": 4, "depth": 99, "steps": 6 if tier == "quick" else 7, "nopoll": True},
               "C17", exhaustive=True, gen="SFTwin")
    # inputs k/7: every sum and product rounds, so anything that makes the ORDER of operations depend on the instance (where a ring
    # buffer happens to wrap, how a clone lays out its memory) shows as a one-ulp difference between twins or clone and original
    run.submit(p2_job, "twin-sevenths", {"cfgs": stateful, "inputs": [1, 2], "unit": 7, "slots": 4, "depth": 99, "steps": 6, "nopoll": True},
               "C17", exhaustive=True, gen="SFTwin")
    run.submit(p2_job, "sf-sevenths", {"cfgs": catalogue(3, positive=True), "inputs": [1, 2, 3], "unit": 7, "slots": 3, "depth": depth}, "C17", num=num, twice=True)
    chn = chains2(catalogue(2, positive=True), sma(2))
    run.submit(p2_job, "twin-chains", {"cfgs": chn, "inputs": [1, 2], "unit": 1, "slots": 4, "depth": 99, "steps": 4}, "C17", exhaustive=True, gen="SFTwin")
    # exhaustive small depth on two slots: every interleaving of new/update/last/clone/drop
    small = [sma(2), {"k": "Rsi", "n": 2}, {"k": "LaguerreFilter", "g": [1, 2]}, {"k": "CyberCycle", "n": 1}]
    run.submit(p2_job, "sf-exhaustive", {"cfgs": small, "inputs": [1, 2], "unit": 1, "slots": 2, "depth": 5 if tier == "quick" else 6}, "C17", exhaustive=True)
    return run.finish("behaviours of SF.tla (new/update/last/clone/drop on up to 3 slots) generated by TLC (simulation, plus all behaviours "
                      "to depth 5 on 2 slots), replayed on the real crate; non-trivial = behaviours with at least two last() answers to compare")

def walk(rnd, n, lo, hi, maxstep, grain=1):
    """bounded random walk of integers (values in units of 1/unit), with occasional ties and jumps; every value and
    hence every non-zero step is a multiple of `grain`, so magnitudes and step sizes both span at most hi/grain"""
    lo, hi, maxstep = lo // grain, hi // grain, max(1, maxstep // grain)
    x = rnd.randint(lo, hi); out = []
    for _ in range(n):
        r = rnd.random()
        if r < 0.1:
            pass                                   # tie
        elif r < 0.13:
            x = rnd.randint(lo, hi)                # jump
        else:
            x += rnd.randint(-maxstep, maxstep)
        x = min(hi, max(lo, x))
        out.append(x * grain)
    return out

def shapes(rnd, n, lo, hi, length):
    """adversarial stream shapes for window length n: volatile then flat, steps, monotone runs, linear windows, alternation, ties"""
    out = []
    def rv(): return rnd.randint(lo, hi)
    while len(out) < length:
        c = rnd.randint(0, 6)
        if c == 0:
            out += [rv() for _ in range(rnd.randint(2, n + 3))] + [rv()] * rnd.randint(n + 1, 2 * n + 2)
        elif c == 1:
            a, b = rv(), rv(); out += [a] * rnd.randint(1, n + 1) + [b] * rnd.randint(1, n + 1)
        elif c == 2:
            a = rv(); d = rnd.choice([-1, 1]) * rnd.randint(1, max(1, (hi - lo) // (4 * n + 4)))
            out += [min(hi, max(lo, a + d * i)) for i in range(rnd.randint(n, 2 * n + 2))]
        elif c == 3:
            a, b = rv(), rv(); out += [a if i % 2 else b for i in range(rnd.randint(2, 2 * n + 2))]
        elif c == 4:
            out += sorted(rv() for _ in range(rnd.randint(2, n + 2)))[::rnd.choice([-1, 1])]
        elif c == 5:
            v = rv(); out += [v, v, rv(), v, v]
        else:
            out += [rv() for _ in range(rnd.randint(1, 2 * n))]
    return out[:length]

def residue_runs(rnd, n, length, big=(10**8, 10**9), signed=True):
    """wide dynamic range: volatile stretches of large values (big, in units), each followed by more than a window of a small constant
    or by a monotone run of tiny steps - what a running aggregate's rounding residue needs to surface"""
    out = []
    while len(out) < length:
        sg = rnd.choice([-1, 1]) if signed else 1
        out += [sg * rnd.randint(*big) * (rnd.choice([-1, 1]) if signed and rnd.random() < 0.3 else 1) for _ in range(rnd.randint(n + 1, 2 * n + 3))]
        c = rnd.randint(0, 3)
        if c == 0:
            out += [rnd.choice([0, 1, 100, 1100, 123456]) * (rnd.choice([-1, 1]) if signed else 1)] * rnd.randint(n + 1, 2 * n + 2)
        elif c == 1:
            d = rnd.choice([-1, 1]) * rnd.choice([1, 2, 3, 1000])
            out += [out[-1] + d * (i + 1) for i in range(rnd.randint(n + 2, 3 * n + 2))]
        elif c == 2:
            base = rnd.choice([1, 7, 1100]); d = rnd.choice([1, 2, 3])
            run_ = [base + d * i for i in range(rnd.randint(n + 2, 3 * n + 2))]
            out += run_ if rnd.random() < 0.5 else run_[::-1]
        else:
            out += [rnd.randint(1, 2000) for _ in range(rnd.randint(n + 1, 2 * n + 2))]
    return out[:length]

def extreme_runs(rnd, n, length, signed=True):
    """the same shapes as residue_runs with inputs [m, e] = (m / unit) * 2^e: volatile values around 2^40 .. 2^60, then more than a
    window of values around 2^-40 - a dynamic range of thirty decades, beyond the 53 bits of an f64 mantissa"""
    out = []
    while len(out) < length:
        sg = rnd.choice([-1, 1]) if signed else 1
        e_big = rnd.choice([40, 50, 60])
        out += [[sg * rnd.randint(10**8, 10**9), e_big] for _ in range(rnd.randint(n + 1, 2 * n + 3))]
        c = rnd.randint(0, 2)
        if c == 0:
            out += [[rnd.choice([0, 1, 1100, 123456] if signed else [1, 1100, 123456]) * (rnd.choice([-1, 1]) if signed else 1), rnd.choice([0, -40])]] * rnd.randint(n + 1, 2 * n + 2)
        elif c == 1:
            base = rnd.choice([1, 7, 1100]); d = rnd.choice([1, 2, 3])
            out += [[base + d * i, -40] for i in range(rnd.randint(n + 2, 3 * n + 2))]
        else:
            out += [[rnd.randint(-2000 if signed else 1, 2000), rnd.choice([0, -40])] for _ in range(rnd.randint(n + 1, 2 * n + 2))]
    return out[:length]

def flat_after_volatile(rnd, n, lo, hi, small=False):
    pre = [rnd.randint(lo, hi) for _ in range(rnd.randint(2, 3 * n + 2))]
    v = rnd.choice(pre + [rnd.randint(lo, hi)])
    if small:
        v = rnd.choice([0, 0, 1, -1, 2])       # zero, or tiny next to the prefix
    return pre + [v] * rnd.randint(n + 1, 2 * n + 2)

@check("C16")
def c16(tier):
    run = Run("C16", tier, "exploration")
    rnd = random.Random(1000 + run.seed)
    n64 = 20000 if tier == "quick" else 1000000
    n32 = 2000 if tier == "quick" else 10000
    long_streams = []
    for k, mode in (("Sma", "window"), ("Cumulative", "window"), ("Alma", "window"), ("Rsi", "window"), ("MyRSI", "window"),
                    ("WelfordOnline", "window"), ("WelfordRolling", "rolling"), ("Min", "window"), ("HLNormalizer", "window"), ("Vsct", "window"),
                    ("CenterOfGravity", "window"), ("CorrelationTrendIndicator", "window"), ("Roc", "window"), ("Vst", "window"),
                    ("NoiseEliminationTechnology", "window"), ("BinaryEntropy", "window"), ("Max", "window")):
        newer = k in ("CenterOfGravity", "CorrelationTrendIndicator", "Roc", "Vst", "NoiseEliminationTechnology", "BinaryEntropy", "Max")
        for n in (((3, 16) if newer else (5, 16)) if tier == "quick" else (3, 16, 64)):
            cfg = {"k": k} if k == "WelfordRolling" else {"k": k, "n": n}
            # values k/1000, 10 <= k <= 10000 in multiples of 10: non-zero magnitudes and non-zero steps both span three decades
            long_streams.append({"cfg": cfg, "unit": 1000, "mode": mode, "eps": [1, 1000000], "float": "f64",
                                 "xs": walk(rnd, n64, 10, 10000, 400, grain=10), "k": 25 if tier == "quick" else 250,
                                 "extras": k in ("WelfordOnline", "WelfordRolling")})
            long_streams.append({"cfg": cfg, "unit": 1000, "mode": mode, "eps": [1, 100], "float": "f32",
                                 "xs": walk(rnd, n32, 10, 10000, 400, grain=10), "k": 5})
    # slow drift: a few much longer f64 streams with wide windows, sparsely sampled (the ghost state still sees every input)
    if tier == "quick":
        for k, mode, n in (("Sma", "window", 100), ("Cumulative", "window", 250), ("WelfordRolling", "rolling", 0)):
            cfg = {"k": k} if k == "WelfordRolling" else {"k": k, "n": n}
            long_streams.append({"cfg": cfg, "unit": 1000, "mode": mode, "eps": [1, 1000000], "float": "f64",
                                 "xs": walk(rnd, 200000, 10, 10000, 400, grain=10), "k": 200})     # (TLC's recursive folds are quadratic in the chunk length)
    half = len(long_streams) // 2
    run.submit(p3_stream_job, "long-a", "C16", long_streams[:half])
    run.submit(p3_stream_job, "long-b", "C16", long_streams[half:])
    # a volatile stretch followed by at least a full window of identical values: the exact flat-window answer, not residue
    flats = []
    kinds = ["Rsi", "MyRSI", "Vst", "Vsct", "WelfordOnline", "HLNormalizer", "CorrelationTrendIndicator", "NoiseEliminationTechnology", "Roc",
             "CyberCycle", "Sma", "Ema", "Alma", "Cumulative", "Min", "Max", "CenterOfGravity", "BinaryEntropy"]
    reps = 12 if tier == "quick" else 120
    for k in kinds:
        for n in (2, 3, 5, 8):
            for r in range(reps):
                unit = rnd.choice([10, 100, 1000])
                # every third stream ends flat at zero or at a value tiny next to the prefix (a sum that should be exactly 0 or nearly so)
                flats.append({"cfg": {"k": k, "n": n}, "unit": unit, "mode": "full", "eps": [1, 10000], "float": "f64",
                              "xs": flat_after_volatile(rnd, n, 1, 9999 if unit == 1000 else 999, small=(r % 3 == 2)), "k": 1})
    # ... the same in f32 (1e-2 of the scale)
    for k in kinds:
        for n in (2, 3, 5, 8):
            for r in range(3 if tier == "quick" else 30):
                unit = rnd.choice([10, 100, 1000])
                flats.append({"cfg": {"k": k, "n": n}, "unit": unit, "mode": "full", "eps": [1, 100], "float": "f32",
                              "xs": flat_after_volatile(rnd, n, 1, 9999 if unit == 1000 else 999, small=(r % 3 == 2)), "k": 1})
    for i in range(0, len(flats), max(1, len(flats) // 3 + 1)):
        run.submit(p3_stream_job, "flat-%d" % (i // max(1, len(flats) // 3 + 1)), "C16", flats[i:i + len(flats) // 3 + 1])
    # the recursive views, for which "flat" takes much longer than a window: a volatile stretch, then 1200 identical values, validated
    # step by step against the machine (= the difference equations).  Normalised indicators must not report the rounding limit cycle
    # of their smoother as a signal of order one (TrendFlex / ReFlex did for about one constant in three)
    tails = []
    def tail(cfg, c, length, k):
        # values 0.1 .. 10 in units of 1/1000: the tolerance 1e-4 x largest magnitude is 1e-3 of a normalised output
        tails.append({"cfg": cfg, "unit": 1000, "mode": "machine", "eps": [1, 10000], "float": "f64",
                      "xs": walk(rnd, 60, 100, 10000, 600) + [c] * length, "k": k})
    # whether the f64 smoother settles or cycles depends on the constant and the window length (about one constant in five cycles);
    # 0.777 and 123.4 at N = 20, 123.4 and 999.1 at N = 33 are known to cycle in the unrepaired code, the third is drawn
    for k in ("TrendFlex", "ReFlex"):
        for n, cs in (((20, (777, 123400)),) if tier == "quick" else ((20, (777, 123400)), (33, (123400, 999100)))):
            for c in cs + (rnd.randint(101, 99999),) + tuple(-c_ for c_ in cs):      # ... and their mirror images (IEEE arithmetic is sign-symmetric)
                tail({"k": k, "n": n}, c, 2600, 10)     # sqrt(ms) decays by 0.98 per step: the limit cycle shows after about 1700 steps
    # ... and in f32 (1e-2 of the scale): 17.1 at N = 11, 3.3 at N = 23 cycle there when the noise floor is not an f32 one
    for k in ("TrendFlex", "ReFlex"):
        for n, c in ((11, 17100), (23, 3300)):
            tails.append({"cfg": {"k": k, "n": n}, "unit": 1000, "mode": "machine", "eps": [1, 100], "float": "f32",
                          "xs": walk(rnd, 60, 100, 10000, 600) + [c] * 1500, "k": 10})
    for cfg in ({"k": "LaguerreRSI", "n": 5}, {"k": "CyberCycle", "n": 5}, {"k": "SuperSmoother", "n": 5}, {"k": "RoofingFilter", "n": 5, "m": 3},
                {"k": "LaguerreFilter", "g": [4, 5]}, {"k": "EhlersFisherTransform", "n": 5, "c": [E, ema(4)]}, ema(20)):
        tail(cfg, rnd.choice([1234, 9991, 777, rnd.randint(101, 9999)]), 1200, 20)
    # the recursive views in f32 on three-decade walks, step by step against their machines (1e-2 of the scale)
    rec32 = []
    for n in ((3, 16) if tier == "quick" else (3, 8, 16, 33)):
        for cfg in (ema(n), {"k": "SuperSmoother", "n": n}, {"k": "RoofingFilter", "n": n, "m": 4}, {"k": "CyberCycle", "n": n}, {"k": "LaguerreRSI", "n": n},
                    {"k": "TrendFlex", "n": n}, {"k": "ReFlex", "n": n}, {"k": "EhlersFisherTransform", "n": n, "c": [E, ema(4)]},
                    {"k": "PolarizedFractalEfficiency", "n": max(n, 3), "c": [E, ema(4)]}, {"k": "Alma", "n": n}, {"k": "Cumulative", "n": n}):
            rec32.append({"cfg": cfg, "unit": 1000, "mode": "machine", "eps": [1, 100], "float": "f32",
                          "xs": walk(rnd, 600 if tier == "quick" else 1500, 10, 10000, 400, grain=10), "k": 3})
    rec32.append({"cfg": {"k": "LaguerreFilter", "g": [4, 5]}, "unit": 1000, "mode": "machine", "eps": [1, 100], "float": "f32",
                  "xs": walk(rnd, 600, 10, 10000, 400, grain=10), "k": 3})
    # a high level relative to the spread (32768.000 .. 32768.999) in a long window, f32: level-dependent shortcuts
    for k in ("Vsct", "Vst", "WelfordOnline", "HLNormalizer", "Sma", "CorrelationTrendIndicator"):
        rec32.append({"cfg": {"k": k, "n": 129}, "unit": 1000, "mode": "window", "eps": [1, 100], "float": "f32",
                      "xs": [32768000 + rnd.randint(0, 999) for _ in range(330)], "k": 3})
    run.submit(p3_stream_job, "f32-recursive", "C16", rec32)
    run.submit(p3_stream_job, "flat-tail-a", "C16", tails[:len(tails) // 2])
    run.submit(p3_stream_job, "flat-tail-b", "C16", tails[len(tails) // 2:])
    run.assumptions.append("the specification has no model of IEEE rounding: rounding effects are only observed on the recorded streams (seeded), not explored")
    return run.finish("recorded f64/f32 streams (random walks over three decades in units of 1/1000; volatile prefixes followed by >= N+1 identical "
                      "values) validated event by event against the exact definition on the ghost window; non-trivial = events where the definition fixes the answer")

def c09_views(n):
    v = [ema(n), {"k": "SuperSmoother", "n": n}, {"k": "CyberCycle", "n": n}, {"k": "LaguerreRSI", "n": max(n, 2)},
         {"k": "EhlersFisherTransform", "n": n, "c": [E, ema(3)]}, {"k": "RoofingFilter", "n": n, "m": 3},
         {"k": "Ema", "n": 3, "c": [{"k": "SuperSmoother", "n": n}]}, {"k": "SuperSmoother", "n": 3, "c": [{"k": "RoofingFilter", "n": n, "m": 2}]}]
    if n >= 3:
        v += [{"k": "TrendFlex", "n": n}, {"k": "ReFlex", "n": n}]
    return v

@check("C09")
def c09(tier):
    run = Run("C09", tier, "model_checking")
    # (a) pole criterion on the specification's coefficient formulas, every N
    wd = run.wd
    sp = os.path.join(wd, "poles.scope.json")
    nmax = 512 if tier == "quick" else 4096
    json.dump({"nmin": 1, "nmax": nmax, "flexmin": 1, "roofmin": 2}, open(sp, "w"))
    res = sfv.run_tlc("MC_C09", "MC.cfg", {"SCOPE": sp}, wd, workers=8, timeout=1500)
    if res["distinct"] != nmax:
        raise sfv.ToolError("MC_C09 explored %d states, expected %d" % (res["distinct"], nmax))
    run.states += res["distinct"]; run.transitions += res["states"]; run.evaluations += res["distinct"]; run.nontrivial += res["distinct"]
    run.jobs.append({"name": "poles", "pipeline": "MC (specification only)", "module": "MC_C09", "N": [1, nmax], "states": res["distinct"], "tlc_s": round(res["wall"], 2)})
    for v in res["viol"]:
        run.add_violation(v[1].split(".")[1], "pole-criterion", None, {"N": v[2], "view": v[1]}, {"kind": "formula", "view": v[1], "N": v[2]})
    # (b) recorded long streams on the real code
    rnd = random.Random(99 + run.seed)
    n = 20000 if tier == "quick" else 400000
    k = 100 if tier == "quick" else 1000
    ns = [1, 2, 3, 4, 5, 7, 9, 12, 16, 64, 128, 256] if tier == "quick" else list(range(1, 13)) + [16, 32, 64, 128, 200, 256, 512]
    lag = [{"k": "LaguerreFilter", "g": g} for g in ([0, 1], [1, 2], [9, 10])]
    progs = []; meta = []
    def add(cfg, kind, xa, xb=None, unit=10, maxabs=1000, tailabs=None, tail=None, agree_from=None, flt="f64"):
        pr = [["new", 0, cfg], ["uss", 0, xa, k]]
        if xb is not None:
            pr += [["new", 1, cfg], ["uss", 1, xb, k]]
        progs.append({"id": len(progs) + 1, "unit": unit, "slots": 2, "float": flt, "prog": pr})
        m = {"cfg": cfg, "kind": kind, "unit": unit, "maxabs": maxabs, "len": len(xa)}
        if tailabs is not None:
            m["tailabs"] = tailabs
        if tail is not None:
            m["tail"] = tail
        if agree_from is not None:
            m["agree_from"] = agree_from; m["k"] = k
        meta.append(m)
    for nn, cfg in [(nn, c) for nn in ns for c in c09_views(nn)] + [(1, c) for c in lag]:
        # "converge geometrically": the rate is the view's own (about 2/N per step for the slowest); the common tail is long enough
        # for the slowest documented rate to bring a past nine decades louder below 1e-9 of the tail's scale
        H = max(4000, 30 * nn)
        add(cfg, "bounded", [1000 if i % 2 else -1000 for i in range(n)])                       # Nyquist
        add(cfg, "bounded", [1000] * (n // 2) + [-1000] * (n // 2))                                # constant, then a step
        add(cfg, "bounded", [rnd.randint(-1000, 1000) for _ in range(n)])                          # noise
        tail = [rnd.randint(-1000, 1000) for _ in range(H)]
        add(cfg, "pair", [rnd.randint(-1000, 1000) for _ in range(2000)] + tail, [1000, -1000] * 1000 + tail)
        add(cfg, "pair", [0] * 2000 + tail, [rnd.choice([-1000, 1000]) for _ in range(2000)] + tail)
        # the common tail is a constant, and a staircase (runs of equal values): a filter that stops stepping while its input does
        # not move keeps the two pasts apart for ever
        flat = [rnd.randint(-1000, 1000)] * H
        add(cfg, "pair", [rnd.randint(-1000, 1000) for _ in range(500)] + flat, [rnd.randint(-1000, 1000) for _ in range(500)] + flat, tail="constant")
        add(cfg, "pair", [-1000] * 50 + [0] * H, [1000] * 50 + [0] * H, tail="constant")      # approach from below / from above
        # ... and a long exactly flat run at a non-zero level followed by movement: whatever is suspended while the input is flat
        # (a normaliser that stops decaying, a stage that stops stepping) must not leave the two pasts apart once it moves again
        hold = [rnd.choice([777, -1234, 333])] * max(600, 30 * nn)      # long enough for the slowest documented rate (about 2/N per step)
        add(cfg, "pair", [rnd.randint(-1000, 1000) for _ in range(300)] + hold + tail, [rnd.randint(-30, 30) for _ in range(300)] + hold + tail,
            agree_from=300 + len(hold) + 1)
        stair = [v for _ in range(H // 8 + 1) for v in [rnd.randint(-1000, 1000)] * 8][:H]
        add(cfg, "pair", [rnd.randint(-1000, 1000) for _ in range(500)] + stair, [1000, -1000] * 250 + stair)
        # a loud past followed by a quiet common tail: anything that remembers an extreme of the past (a running maximum
        # used for normalisation, a peak that never decays) keeps the two runs apart
        quiet = [rnd.randint(-60, 60) for _ in range(H)]
        add(cfg, "pair", [rnd.choice([-1000, 1000, 0, 500]) for _ in range(1500)] + quiet, [rnd.randint(-5, 5) for _ in range(1500)] + quiet, tailabs=60)
        # ... nine decades louder than the tail: rounding residue of the past must not stay in the answers either
        tail3 = [rnd.randint(-3, 3) for _ in range(H)]
        add(cfg, "pair", [rnd.choice([-2000000000, 2000000000, 1500000000]) for _ in range(300)] + tail3, [rnd.randint(-3000, 3000) for _ in range(300)] + tail3,
            unit=1000, maxabs=2000000000, tailabs=3)
    # boundedness in the f32 instantiation (a pole that is inside the unit circle in f64 but rounds onto it in f32, an overflow)
    for nn in (3, 16, 256):
        for cfg in c09_views(nn):
            add(cfg, "bounded", [1000 if i % 2 else -1000 for i in range(n)], flt="f32")
            add(cfg, "bounded", [rnd.randint(-1000, 1000) for _ in range(n)], flt="f32")
    if 512 not in ns:
        # the listed finding KF3 (TrendFlex / ReFlex from N = 436 on a constant tail) is exhibited in every tier
        for kk in ("TrendFlex", "ReFlex"):
            add({"k": kk, "n": 512}, "pair", [-1000] * 50 + [0] * 15360, [1000] * 50 + [0] * 15360, tail="constant")
    out = record(run, "streams", progs)
    lines = []
    for m, r in zip(meta, out):
        if r["res"][0] != "ok":
            continue          # the constructor does not admit this window length (RoofingFilter N=1)
        ln = dict(m); ln["oa"] = r["res"][1]
        if m["kind"] == "pair":
            ln["ob"] = r["res"][3]
        lines.append(ln)
    exp_job(run, "streams", "C09", lines, "lines", describe=lambda e: {"cfg": e["cfg"], "kind": e["kind"], "len": e["len"]})
    run.exhaustive = False
    return run.finish("(a) one TLC state per window length N: Jury conditions on the specification's coefficient formulas; (b) recorded streams "
                      "(Nyquist, step, noise; pairs with a common 4000-step tail) of the real views for N in 1..64; non-trivial = every state / line")

def c18_cfgs(n):
    # every view over Echo; every view over an inner view that withholds values at the start (Sma) and one that can withhold
    # them for ever (LaguerreRSI on a constant stream reports nothing)
    # (NoiseEliminationTechnology(1) never has a pair to compare; Roc reports nothing while the oldest value is 0, LaguerreRSI
    # nothing while its lags have not moved)
    return ([c for c in catalogue(n, positive=True)] + chains2(catalogue(n), sma(n)) + chains2(catalogue(n), {"k": "LaguerreRSI", "n": max(n, 2)})
            + chains2(catalogue(n), {"k": "NoiseEliminationTechnology", "n": 1}) + chains2(catalogue(n), {"k": "Roc", "n": 2}))

@check("C18")
def c18(tier):
    run = Run("C18", tier, "exploration")
    exps = []
    for n in ((1, 2, 3, 4, 5, 7, 8, 16, 33) if tier == "quick" else (1, 2, 3, 4, 5, 6, 7, 8, 12, 16, 33, 64)):
        for cfg in c18_cfgs(n):
            L0 = 8 * (2 * n + 4)
            for period, ramp in (([12, 15, 11, 18, 18, 9, 14], 0), ([7], 0), ([0], 0), ([5, 5, 9, 9, 9, 2], 0),      # varied, constant, zero, ties
                                 ([100, 130, 110, 150, 120], 8), ([100, 80, 95, 60], -1)):         # rising zigzag (new highs for ever), falling
                exps.append({"cfg": cfg, "unit": 10, "marks": [L0, 4 * L0, 16 * L0 if tier == "quick" else 256 * L0], "period": period, "ramp": ramp})
            if n in (3, 16):
                # the answer polled twice after every update; the view replaced by its clone every 7 updates; the f32 instantiation
                base = {"cfg": cfg, "unit": 10, "marks": [L0, 4 * L0, 16 * L0 if tier == "quick" else 64 * L0], "period": [12, 15, 11, 18, 18, 9, 14], "ramp": 0}
                exps.append(dict(base, poll=2))
                exps.append(dict(base, clone_every=7, poll=1))
                exps.append(dict(base, float="f32", ramp=3))
    # model level: the machines' buffers stay under CellBound along constant and two-symbol streams four windows long
    for n in ((1, 3, 16) if tier == "quick" else (1, 2, 3, 5, 16, 64)):
        run.submit(model_job, "cells-n%d" % n, {"cfgs": [c for c in catalogue(n) if modelled(c)], "alphabet": [2] if n > 3 else [-1, 2], "unit": 1,
                                                "maxlen": 4 * n + 8 if n > 3 else 10, "nodef": True})
    out = record(run, "mem", exps, mode="mem")
    out = [o for o in out if isinstance(o.get("res"), dict)]
    exp_job(run, "mem", "C18", out, "views", describe=lambda e: {"cfg": e["cfg"], "marks": e["res"]["marks"]})
    return run.finish("live heap bytes attributable to each view of the catalogue (and two-level chains) at L0, 4 L0 and 16 L0 (256 L0 thorough) "
                      "updates, L0 = 8(2N+4), N in {1,3,16,64}; non-trivial = every view measured")

# ------------------------------------------------------------------------------------------------
def setup():
    sfv.ensure_java()
    sfv.build_harness("dev")
    sfv.build_harness("release")
    wd = sfv.workdir("setup")
    sfv.sh([sys.executable, os.path.join(sfv.VERIF, "lib", "gen_wide_vectors.py"), os.path.join(wd, "wvec.ndjson")])
    sfv.sh([sys.executable, os.path.join(sfv.VERIF, "lib", "gen_fx_vectors.py"), os.path.join(wd, "fvec.ndjson")])
    r = sfv.run_tlc("WideTest", "WideTest.cfg", {"WVEC": os.path.join(wd, "wvec.ndjson")}, wd, workers=1, timeout=600)
    if "WideTest" not in r["out"]:
        raise sfv.ToolError("WideTest did not run")
    r = sfv.run_tlc("FxTest", "FxTest.cfg", {"FVEC": os.path.join(wd, "fvec.ndjson")}, wd, workers=1, timeout=600)
    if "FxTest" not in r["out"]:
        raise sfv.ToolError("FxTest did not run")
    sfv.sh([sys.executable, os.path.join(sfv.VERIF, "lib", "gen_ieee_vectors.py"), os.path.join(wd, "ivec.ndjson")])
    r = sfv.run_tlc("IEEETest", "IEEETest.cfg", {"IVEC": os.path.join(wd, "ivec.ndjson")}, wd, workers=1, timeout=600)
    if "IEEETest" not in r["out"]:
        raise sfv.ToolError("IEEETest did not run")
    log("setup ok")
    return 0

def selftest():
    """Demonstrate that the binding binds: the same TLA+ checks that accept the real observations reject them as soon as one
    logged field is corrupted, one observation-point event is dropped, or one input is shifted."""
    wd = sfv.workdir("selftest")
    results = []
    def mc(module, sp, tb, cfgfile="MC.cfg", extra=None):
        env = {"SCOPE": sp, "TABLE": tb}
        if extra:
            env.update(extra)
        return sfv.run_tlc(module, cfgfile, env, wd, workers=4, timeout=600)
    def expect(name, res, want_viol, where=None):
        n = len(res["viol"])
        ok = (n > 0) == want_viol
        if ok and where is not None:
            ok = any(v[2:5] == list(where) for v in res["viol"])
        results.append((name, ok, n))
        log("  %-62s %s (%d VIOL lines)" % (name, "ok" if ok else "FAILED", n))
    # --- P1: definitions against the behaviour tree
    scope = {"prop": "C02", "cfgs": [sma(3), {"k": "WelfordOnline", "n": 2}], "alphabet": [-2, 0, 1, 3], "unit": 1, "maxlen": 5, "extras": True}
    sp = os.path.join(wd, "p1.scope.json"); tb = os.path.join(wd, "p1.table.ndjson")
    json.dump(scope, open(sp, "w")); sfv.harness("table", sp, tb)
    expect("P1 clean table accepted", mc("MC_Def", sp, tb), False)
    lines = [json.loads(l) for l in open(tb)]
    def write(ls, path):
        with open(path, "w") as f:
            for l in ls:
                f.write(json.dumps(l) + "\n")
    # flip one limb of one logged value: Sma(3), length 5, index 777
    import copy
    ls = copy.deepcopy(lines); o = ls[5]["o"][777]
    o[2] = (o[2] + [0, 0, 0])[:max(3, len(o[2]))]; o[2][2] = (o[2][2] + 1) % 10000          # +- 1e-4 on a value of order 1
    t2 = os.path.join(wd, "p1.corrupt1.ndjson"); write(ls, t2)
    expect("P1 one logged value changed by 1e-4 -> rejected there", mc("MC_Def", sp, t2), True, where=(1, 5, 777))
    ls = copy.deepcopy(lines); ls[4]["o"][100] = ["n"]
    t3 = os.path.join(wd, "p1.corrupt2.ndjson"); write(ls, t3)
    expect("P1 one Some replaced by None -> rejected there", mc("MC_Def", sp, t3), True, where=(1, 4, 100))
    sc2 = dict(scope); sc2["alphabet"] = [-2, 0, 1, 4]
    sp2 = os.path.join(wd, "p1.scope2.json"); t4 = os.path.join(wd, "p1.shifted.ndjson")
    json.dump(sc2, open(sp2, "w")); sfv.harness("table", sp2, t4)
    expect("P1 one input symbol shifted (3 -> 4) in the run only -> rejected", mc("MC_Def", sp, t4), True)
    # --- C01: observation points
    sc = {"cfgs": c01_pairs([sma(2), {"k": "Rsi", "n": 2}], [{"k": "Roc", "n": 1}, sma(2)]), "alphabet": [1, 2, 4], "unit": 1, "maxlen": 4, "taps": True}
    sp = os.path.join(wd, "c01.scope.json"); tb = os.path.join(wd, "c01.table.ndjson")
    json.dump(sc, open(sp, "w")); sfv.harness("table", sp, tb)
    expect("C01 clean taps accepted", mc("MC_C01", sp, tb, "MC_C01.cfg"), False)
    lines = [json.loads(l) for l in open(tb)]
    ls = copy.deepcopy(lines)
    ev = ls[3]["ev"][5]
    ls[3]["ev"][5] = [e for e in ev if not (e[0] == 0 and e[1] == "u")]          # the leaf never saw this update
    t5 = os.path.join(wd, "c01.dropped.ndjson"); write(ls, t5)
    expect("C01 one Probe update event dropped -> forward-once rejected", mc("MC_C01", sp, t5, "MC_C01.cfg"), True, where=(1, 3, 5))
    ls = copy.deepcopy(lines); ls[3]["ev"][5] = ev + [[0, "u", ev[0][2]]]
    t6 = os.path.join(wd, "c01.dup.ndjson"); write(ls, t6)
    expect("C01 one update delivered twice -> rejected", mc("MC_C01", sp, t6, "MC_C01.cfg"), True, where=(1, 3, 5))
    # --- P2: programs
    progs = [{"id": 1, "unit": 1, "slots": 3, "prog": [["new", 0, sma(2)], ["new", 1, sma(2)], ["u", 0, 1], ["u", 1, 1], ["u", 0, 3], ["l", 0], ["u", 1, 3], ["l", 1], ["clone", 0, 2], ["l", 2]]}]
    pi = os.path.join(wd, "p2.in.ndjson"); po = os.path.join(wd, "p2.out.ndjson")
    write(progs, pi); sfv.harness("run", pi, po)
    r = sfv.run_tlc("Trace_SF", "Trace.cfg", {"TRACE": po, "PROP": "C17"}, wd, workers=1, timeout=300, dfs=True)
    expect("P2 clean program trace accepted", r, False)
    rec = json.loads(open(po).readline()); rec["res"][7][2][0] = (rec["res"][7][2][0] + 1) % 10000; rec["res"][7][4][2] += 1
    pc = os.path.join(wd, "p2.corrupt.ndjson"); write([rec], pc)
    r = sfv.run_tlc("Trace_SF", "Trace.cfg", {"TRACE": pc, "PROP": "C17"}, wd, workers=1, timeout=300, dfs=True)
    expect("P2 the twin's answer changed in one bit -> rejected", r, True)
    # --- P3: stream
    run = Run("selftest", "quick", "exploration")
    st = [{"cfg": sma(3), "unit": 10, "mode": "window", "eps": [1, 1000000], "float": "f64", "xs": [1, 5, 9, 12, 7, 7, 3, 40, 2, 2], "k": 1}]
    r = sfv.p3_stream_job(run, "p3", "C16", st)
    expect("P3 clean stream accepted", r, False)
    tr = os.path.join(run.wd, "p3.trace.ndjson")
    ls = [json.loads(l) for l in open(tr)]
    ls[6]["o"][2][2] = (ls[6]["o"][2][2] + 7) % 10000
    tc = os.path.join(wd, "p3.corrupt.ndjson"); write(ls, tc)
    r = sfv.run_tlc("Trace_Stream", "TraceS.cfg", {"TRACE": tc, "PROP": "C16"}, wd, workers=1, timeout=300, dfs=True)
    expect("P3 one recorded answer perturbed by 7e-4 -> rejected", r, True)
    bad = [n for n, ok, _ in results if not ok]
    if bad:
        log("selftest FAILED: " + "; ".join(bad))
        return 2
    log("selftest ok: %d demonstrations" % len(results))
    return 0

def replay(path):
    obj = json.load(open(path))
    wd = sfv.workdir("replay")
    if obj.get("kind") == "p1":
        alpha = sorted(set(obj["inputs"])) or [0]
        # keep the alphabet at least two symbols wide so that the index arithmetic is exercised
        scope = dict(obj.get("scope_rest", {}))
        scope.update({"cfgs": [obj["cfg"]], "alphabet": alpha, "maxlen": len(obj["inputs"])})
        run = Run("replay", "quick", "model_checking")
        run.prop = obj["property"]
        run.known = []
        scope2 = None
        if "alphabet2" in obj:
            scope["alphabet"] = obj["alphabet"]
            scope2 = dict(obj.get("scope2_rest", {}))
            scope2.update({"cfgs": [obj["cfg2"]], "alphabet": obj["alphabet2"], "maxlen": len(obj["inputs"])})
            if "cfgs2" in scope:
                scope["cfgs2"] = [obj["cfg2"]]
        res = p1_job(run, "replay", obj["module"], scope, profile=obj.get("profile", "dev"), extra_env=obj.get("env") or None, scope2=scope2)
        hit = [v for v in run.violations if v["detail"]["inputs"] == obj["inputs"] and v["clause"] == obj["clause"]]
        # show what the real code answers along this history
        inp = os.path.join(wd, "in.ndjson"); outp = os.path.join(wd, "out.ndjson")
        json.dump({"id": 1, "unit": obj.get("unit", 1), "float": obj.get("float", "f64"),
                   "prog": [["new", 0, obj["cfg"]], ["us", 0, obj["inputs"]]]}, open(inp, "w"))
        sfv.harness("run", inp, outp, obj.get("profile", "dev"))
        r = json.loads(open(outp).readline())
        log("cfg:", json.dumps(obj["cfg"]), "unit:", obj.get("unit", 1))
        for x, o in zip(obj["inputs"], r["res"][1]):
            log("   update(%s) -> last() = %s" % (x, sfv.obs_to_float(o)))
        if hit:
            log("VIOLATION property=%s replay=%s" % (obj["property"], path))
            return 1
        log("replay: the recorded violation does not reproduce on the current tree")
        return 0
    if obj.get("kind") == "p2":
        # one recorded program: replay it on the current tree and let Trace_SF judge it again
        run = Run("replay", "quick", "model_checking"); run.prop = obj["property"]; run.known = []
        inp = os.path.join(wd, "prog.in.ndjson"); outp = os.path.join(wd, "prog.out.ndjson")
        if obj.get("twice"):
            # the whole recorded set, executed twice as in the check (own thread / generation order, shared thread / reverse order)
            lines = [json.dumps({"id": i + 1, "unit": obj.get("unit", 1), "slots": obj["slots"], "float": obj.get("float", "f64"), "prog": pr})
                     for i, pr in enumerate(obj["all_progs"])]
            open(inp, "w").write("\n".join(lines) + "\n"); open(inp + ".rev", "w").write("\n".join(reversed(lines)) + "\n")
            sfv.harness("run", inp, outp + ".1", obj.get("profile", "dev"), env={"SFV_ISOLATE": "1"})
            sfv.harness("run", inp + ".rev", outp + ".2", obj.get("profile", "dev"), env={"SFV_ISOLATE": "0"})
            second = {}
            for ln in open(outp + ".2"):
                e = json.loads(ln); second[e["id"]] = e["res"]
            with open(outp, "w") as f:
                for ln in open(outp + ".1"):
                    e = json.loads(ln); e["res2"] = second[e["id"]]; f.write(json.dumps(e) + "\n")
                    if e["id"] == obj["index"]:
                        for op, r1, r2 in zip(e["prog"], e["res"], e["res2"]):
                            if r1 != r2:
                                log("   %-40s -> %s | second execution %s" % (json.dumps(op)[:40], sfv.obs_to_float(r1) if isinstance(r1, list) else r1,
                                                                               sfv.obs_to_float(r2) if isinstance(r2, list) else r2))
            res = sfv.run_tlc("Trace_SF", "Trace.cfg", {"TRACE": outp, "PROP": obj.get("prop", obj["property"])}, wd, workers=1, timeout=1200, dfs=True)
            if res["viol"]:
                log("VIOLATION property=%s replay=%s" % (obj["property"], path)); return 1
            log("replay: the recorded violation does not reproduce on the current tree"); return 0
        json.dump({"id": 1, "unit": obj.get("unit", 1), "slots": obj["slots"], "prog": obj["prog"]}, open(inp, "w"))
        sfv.harness("run", inp, outp, obj.get("profile", "dev"))
        r = json.loads(open(outp).readline())
        for op, res in zip(r["prog"], r["res"]):
            log("   %-40s -> %s" % (json.dumps(op)[:40], sfv.obs_to_float(res) if isinstance(res, list) else res))
        res = sfv.run_tlc("Trace_SF", "Trace.cfg", {"TRACE": outp, "PROP": obj.get("prop", obj["property"])}, wd, workers=1, timeout=600, dfs=True)
        if res["viol"]:
            log("VIOLATION property=%s replay=%s" % (obj["property"], path)); return 1
        log("replay: the recorded violation does not reproduce on the current tree"); return 0
    if obj.get("kind") == "p3":
        run = Run("replay", "quick", "exploration"); run.prop = obj["property"]; run.known = []
        st = dict(obj["stream"]); st["xs"] = obj["xs"]; st["k"] = 1
        sfv.p3_stream_job(run, "replay", obj.get("prop", obj["property"]), [st], profile=obj.get("profile", "dev"))
        for v in run.violations[:3]:
            log("   still violated: %s" % json.dumps(v["detail"])[:300])
        if run.violations:
            log("VIOLATION property=%s replay=%s" % (obj["property"], path)); return 1
        log("replay: the recorded violation does not reproduce on the current tree"); return 0
    if obj.get("kind") == "pairs":
        run = Run("replay", "quick", "model_checking"); run.prop = obj["property"]; run.known = []
        sc = dict(obj["scope"]); sc["cfgs"] = [obj["cfg"]]; sc["maxlen"] = len(obj["x"])
        sfv.pair_job(run, "replay", sc)
        hit = [v for v in run.violations if v["detail"]["x"] == obj["x"] and v["detail"]["y"] == obj["y"]]
        if hit:
            log("VIOLATION property=%s replay=%s" % (obj["property"], path)); return 1
        log("replay: the recorded violation does not reproduce on the current tree"); return 0
    if obj.get("kind") == "exp":
        e = obj["experiment"]
        log("experiment: %s" % json.dumps(e)[:400])
        log("re-run the property's check (./check %s) to re-record and re-judge this experiment; streams are regenerated from VERIF_SEED" % obj["property"])
        return CHECKS[obj["property"]](os.environ.get("VERIF_TIER", "quick"))
    if obj.get("kind") == "formula":
        log("model-level finding on the specification's coefficient formula: %s at N=%s; re-run ./check C09" % (obj.get("view"), obj.get("N")))
        return CHECKS["C09"](os.environ.get("VERIF_TIER", "quick"))
    log("unknown replay kind")
    return 2
