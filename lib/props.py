"""Per-property checks: scopes, jobs, evidence.  See DESIGN.md section 5."""
import json, os, sys, time
import sfv
from sfv import Run, p1_job, log

CHECKS = {}

def check(pid):
    def deco(f):
        CHECKS[pid] = f
        return f
    return deco

def cfgs(kinds, ns, **extra):
    out = []
    for k in kinds:
        for n in ns:
            d = {"k": k, "n": n}
            d.update(extra)
            out.append(d)
    return out

# ------------------------------------------------------------------------------------------------
@check("C02")
def c02(tier):
    run = Run("C02", tier, "model_checking")
    kinds = ["Sma", "Cumulative", "Min", "Max", "WelfordOnline", "HLNormalizer", "Roc", "BinaryEntropy", "Vst", "Vsct"]
    A = [-2, 0, 1, 3]
    if tier == "quick":
        plan = [(1, 4, A), (2, 5, A), (3, 6, A), (4, 7, [-2, 0, 3])]
    else:
        plan = [(1, 5, A), (2, 6, A), (3, 7, A), (4, 8, A), (5, 9, [-2, 0, 3]), (6, 10, [-2, 0, 3]), (7, 10, [-2, 0, 3])]
    for n, L, alpha in plan:
        p1_job(run, "w-n%d" % n, "MC_Def", {"prop": "C02", "cfgs": cfgs(kinds, [n]), "alphabet": alpha, "unit": 1, "maxlen": L, "extras": True})
    # decimal unit: same definitions on inputs k/10 (not exactly representable): the statement allows rounding noise
    # proportional to the magnitude; sqrt-type outputs amplify 1e-16 to 1e-8, hence 1e-6 here (C16's figure)
    p1_job(run, "w-dec", "MC_Def", {"prop": "C02", "cfgs": cfgs(kinds, [2, 3]), "alphabet": [-7, 0, 3, 12], "unit": 10, "maxlen": 5 if tier == "quick" else 7, "extras": True,
                                   "eps": [1, 1000000]})
    return run.finish("every input sequence over the alphabet up to maxlen, for every listed view and window length; "
                      "non-trivial = states in which the definition fixes the answer (exact value, fixed-point value, None or hold)")

RULE_DEF = ("every input sequence over the alphabet up to maxlen, for every listed view and window length; "
            "non-trivial = states in which the definition fixes the answer (exact value, fixed-point value, None or hold)")

# ------------------------------------------------------------------------------------------------
@check("C05")
def c05(tier):
    run = Run("C05", tier, "model_checking")
    kinds = ["Rsi", "MyRSI"]
    plan = [(1, 5), (2, 6), (3, 7), (4, 8)] if tier == "quick" else [(1, 7), (2, 8), (3, 9), (4, 10), (5, 10), (6, 11)]
    for alpha in ([0, 1, 3], [-2, 0, 2]):
        for n, L in plan:
            p1_job(run, "rsi-n%d-a%d" % (n, alpha[0]), "MC_Def", {"prop": "C05", "cfgs": cfgs(kinds, [n]), "alphabet": alpha, "unit": 1, "maxlen": L})
    return run.finish(RULE_DEF)

@check("C06")
def c06(tier):
    run = Run("C06", tier, "model_checking")
    kinds = ["CorrelationTrendIndicator", "NoiseEliminationTechnology", "CenterOfGravity"]
    if tier == "quick":
        plan = [(3, 6, [0, 1, 2, 3]), (4, 7, [0, 1, 3]), (5, 8, [0, 1, 3]), (3, 6, [-2, 0, 1])]
    else:
        plan = [(3, 7, [0, 1, 2, 3]), (4, 8, [0, 1, 2, 3]), (5, 9, [0, 1, 3]), (6, 10, [0, 1, 3]), (7, 10, [0, 1, 3]),
                (3, 7, [-2, 0, 1, 2]), (4, 8, [-2, 0, 1]), (8, 11, [0, 2])]
    for n, L, alpha in plan:
        p1_job(run, "trend-n%d-a%d" % (n, alpha[0]), "MC_Def", {"prop": "C06", "cfgs": cfgs(kinds, [n]), "alphabet": alpha, "unit": 1, "maxlen": L})
    return run.finish(RULE_DEF)

@check("C13")
def c13(tier):
    run = Run("C13", tier, "model_checking")
    cf = [{"k": "WelfordRolling"}, {"k": "Drawdown"}, {"k": "LnReturn"}]
    L = 7 if tier == "quick" else 9
    p1_job(run, "roll-int", "MC_Def", {"prop": "C13", "cfgs": cf, "alphabet": [1, 2, 4, 7], "unit": 1, "maxlen": L, "extras": True})
    p1_job(run, "roll-dec", "MC_Def", {"prop": "C13", "cfgs": cf, "alphabet": [5, 12, 20, 31], "unit": 10, "maxlen": L - 1, "extras": True,
                                      "eps": [1, 1000000]})
    return run.finish(RULE_DEF)

E = {"k": "Echo"}
def ema(n): return {"k": "Ema", "n": n}
def sma(n): return {"k": "Sma", "n": n}

@check("C11")
def c11(tier):
    run = Run("C11", tier, "model_checking")
    def views(n):
        v = [{"k": "SuperSmoother", "n": n}, {"k": "LaguerreRSI", "n": n}, {"k": "CyberCycle", "n": n},
             {"k": "RoofingFilter", "n": n, "m": 2}, {"k": "RoofingFilter", "n": n, "m": 3},
             {"k": "EhlersFisherTransform", "n": n, "c": [E, ema(2)]}, {"k": "EhlersFisherTransform", "n": n, "c": [E, sma(2)]},
             {"k": "EhlersFisherTransform", "n": n, "c": [E, E]}]
        if n >= 3:
            v += [{"k": "TrendFlex", "n": n}, {"k": "ReFlex", "n": n},
                  {"k": "PolarizedFractalEfficiency", "n": n, "c": [E, ema(3)]}, {"k": "PolarizedFractalEfficiency", "n": n, "c": [E, sma(2)]},
                  {"k": "PolarizedFractalEfficiency", "n": n, "c": [E, E]}]
        return v
    lag = [{"k": "LaguerreFilter", "g": g} for g in ([0, 1], [1, 2], [3, 4], [1, 5])]
    if tier == "quick":
        plan = [(1, 5, [0, 1, 3]), (2, 6, [0, 1, 3]), (3, 7, [0, 1, 3]), (4, 7, [1, 2, 4]), (5, 9, [0, 3]), (8, 11, [1, 4])]
    else:
        plan = [(1, 7, [0, 1, 3]), (2, 8, [0, 1, 3]), (3, 9, [0, 1, 3]), (4, 9, [0, 1, 3]), (5, 10, [1, 2, 4]), (6, 10, [0, 1, 3]),
                (7, 12, [0, 3]), (8, 13, [1, 4]), (10, 14, [0, 3]), (12, 15, [1, 4]), (16, 18, [0, 3]), (20, 18, [1, 4])]
    for n, L, alpha in plan:
        p1_job(run, "ehlers-n%d" % n, "MC_Def", {"prop": "C11", "cfgs": views(n), "alphabet": alpha, "unit": 1, "maxlen": L})
    p1_job(run, "laguerre", "MC_Def", {"prop": "C11", "cfgs": lag, "alphabet": [-2, 0, 1, 3], "unit": 1, "maxlen": 6 if tier == "quick" else 8})
    return run.finish(RULE_DEF)

@check("C14")
def c14(tier):
    run = Run("C14", tier, "model_checking")
    K = [E, {"k": "Constant", "v": [3, 2]}, sma(2), {"k": "Roc", "n": 1}]
    cf = [{"k": b, "c": [x, y]} for b in ("Add", "Subtract", "Multiply", "Divide") for x in K for y in K]
    cf += [{"k": g, "v": v, "c": [x]} for g in ("GTE", "LTE") for v in ([1, 2], [0, 1], [-3, 4]) for x in K]
    cf += [{"k": "Tanh", "c": [x]} for x in K] + [E, {"k": "Constant", "v": [3, 2]}, {"k": "Constant", "v": [-1, 4]}]
    L = 4 if tier == "quick" else 6
    p1_job(run, "pointwise", "MC_Def", {"prop": "C14", "cfgs": cf, "alphabet": [-3, 0, 1, 4], "unit": 2, "maxlen": L, "bitexact": True})
    Kp = [E, {"k": "LnReturn"}, sma(2), {"k": "Constant", "v": [5, 4]}]
    cfp = [{"k": b, "c": [x, y]} for b in ("Add", "Subtract", "Multiply", "Divide") for x in Kp for y in Kp if "LnReturn" in (x["k"], y["k"])]
    cfp += [{"k": g, "v": [1, 4], "c": [{"k": "LnReturn"}]} for g in ("GTE", "LTE")] + [{"k": "Tanh", "c": [{"k": "LnReturn"}]}]
    p1_job(run, "pointwise-pos", "MC_Def", {"prop": "C14", "cfgs": cfp, "alphabet": [1, 2, 3, 8], "unit": 2, "maxlen": L, "bitexact": True})
    return run.finish(RULE_DEF)

def c04_cfgs(n):
    return [sma(n), ema(n), {"k": "Alma", "n": n}, {"k": "Ema", "n": n, "alpha": [1, 1]}, {"k": "Ema", "n": n, "alpha": [1, 2]},
            {"k": "Ema", "n": n, "alpha": [3, 1]}, {"k": "Alma", "n": n, "sigma": [3, 1], "offset": [1, 2]},
            {"k": "Alma", "n": n, "sigma": [10, 1], "offset": [9, 10]}]

@check("C04")
def c04(tier):
    run = Run("C04", tier, "model_checking")
    plan = [(1, 4), (2, 5), (3, 6), (4, 7)] if tier == "quick" else [(1, 5), (2, 7), (3, 8), (4, 9), (5, 10), (6, 10)]
    for n, L in plan:
        alpha = [-2, 0, 2] if n % 2 else [-2, 0, 1, 3]
        if L >= 7:
            alpha = [-2, 0, 2]
        sc = {"prop": "C04", "cfgs": c04_cfgs(n), "alphabet": alpha, "unit": 1, "maxlen": L}
        # recurrence (Ema, every alpha) and kernel (Alma) clauses: the definition
        p1_job(run, "avg-def-n%d" % n, "MC_Def", sc)
        # interval / constant / monotone for the averages the statement names (default alpha)
        sc2 = dict(sc); sc2["cfgs"] = [sma(n), ema(n), {"k": "Alma", "n": n}, {"k": "Alma", "n": n, "sigma": [3, 1], "offset": [1, 2]}]
        p1_job(run, "avg-rel-n%d" % n, "MC_C04", sc2, nontrivial_keys=("interval",))
        # affine clause: the same history run through x -> a*x+b
        for a, b in (([2, 1], [5, 1]), ([1, 2], [-1, 1]), ([3, 1], [0, 1])):
            rel_job(run, "avg-affine-n%d-a%d_%d" % (n, a[0], a[1]), "C04", sc2["cfgs"], alpha, 1, min(L, 6), a, b, "affine")
    return run.finish(RULE_DEF + "; for the interval/constant/monotone clauses: states in which the average reports a value")

def rel_job(run, name, prop, cf, alphabet, unit, L, a, b, mode, bitexact=False, cfgs2=None):
    """two real runs per history: x and a*x+b (a = [num,den], b = [num,den]); decided by MC_Rel"""
    an, ad = a; bn, bd = b
    unit2 = ad * bd * unit
    alpha2 = [an * bd * x + bn * ad * unit for x in alphabet]
    sc = {"prop": prop, "cfgs": cf, "alphabet": alphabet, "unit": unit, "maxlen": L, "a": a, "b": b, "mode": mode}
    if bitexact:
        sc["bitexact"] = True
    if cfgs2:
        sc["cfgs2"] = cfgs2
    sc2 = {"cfgs": cfgs2 or cf, "alphabet": alpha2, "unit": unit2, "maxlen": L}
    return p1_job(run, name, "MC_Rel", sc, scope2=sc2,
                  nontrivial_keys=("rel.inv", "rel.scale", "rel.affine", "rel.neg", "rel.rsi"))

def c12_cfgs(n):
    v = cfgs(["HLNormalizer", "Vsct", "CorrelationTrendIndicator", "NoiseEliminationTechnology", "Rsi", "MyRSI", "LaguerreRSI", "Vst", "Roc",
              "CenterOfGravity", "BinaryEntropy", "Min", "Max", "Sma", "Ema", "Alma", "Cumulative", "WelfordOnline", "SuperSmoother",
              "CyberCycle"], [n])
    v += [{"k": "EhlersFisherTransform", "n": n, "c": [E, ema(2)]}, {"k": "RoofingFilter", "n": n, "m": 2}, {"k": "LaguerreFilter", "g": [1, 2]}]
    if n >= 3:
        v += cfgs(["TrendFlex", "ReFlex"], [n])
    return v
def swap_minmax(cf):
    return [dict(c, k={"Min": "Max", "Max": "Min"}.get(c["k"], c["k"])) for c in cf]

@check("C12")
def c12(tier):
    run = Run("C12", tier, "model_checking")
    plan = [(1, 4), (2, 5), (3, 6), (4, 7)] if tier == "quick" else [(1, 5), (2, 6), (3, 7), (4, 8), (5, 9), (6, 9)]
    for n, L in plan:
        A = [-2, 0, 1, 3] if L <= 5 else [-2, 0, 3]
        cf = c12_cfgs(n)
        rel_job(run, "scale2-n%d" % n, "C12", cf, A, 1, L, [2, 1], [0, 1], "scale", bitexact=True)
        rel_job(run, "scale3h-n%d" % n, "C12", cf, A, 1, L, [3, 2], [0, 1], "scale")
        rel_job(run, "affine-n%d" % n, "C12", cf, A, 1, L, [3, 1], [5, 2], "affine")
        rel_job(run, "neg-n%d" % n, "C12", cf, A, 1, L, [-1, 1], [0, 1], "neg", cfgs2=swap_minmax(cf))
    # positive-domain views
    pos = [{"k": "LnReturn"}, {"k": "Drawdown"}]
    rel_job(run, "pos-scale2", "C12", pos, [1, 2, 4, 7], 1, 6 if tier == "quick" else 8, [2, 1], [0, 1], "scale", bitexact=True)
    rel_job(run, "pos-scale3", "C12", pos, [1, 2, 4, 7], 1, 6 if tier == "quick" else 8, [3, 1], [0, 1], "scale")
    return run.finish("every input sequence over the alphabet up to maxlen, run twice through the real view (x and a*x+b); "
                      "non-trivial = states in which the statement fixes a relation, the window is not flat and both runs report a value")

# ------------------------------------------------------------------------------------------------
def setup():
    sfv.ensure_java()
    sfv.build_harness("dev")
    sfv.build_harness("release")
    wd = sfv.workdir("setup")
    sfv.sh([sys.executable, os.path.join(sfv.VERIF, "lib", "gen_wide_vectors.py"), os.path.join(wd, "wvec.ndjson")])
    sfv.sh([sys.executable, os.path.join(sfv.VERIF, "lib", "gen_fx_vectors.py"), os.path.join(wd, "fvec.ndjson")])
    r = sfv.run_tlc("WideTest", "WideTest.cfg", {"WVEC": os.path.join(wd, "wvec.ndjson")}, wd, workers=1, timeout=600)
    if "WideTest" not in r["out"]:
        raise sfv.ToolError("WideTest did not run")
    r = sfv.run_tlc("FxTest", "FxTest.cfg", {"FVEC": os.path.join(wd, "fvec.ndjson")}, wd, workers=1, timeout=600)
    if "FxTest" not in r["out"]:
        raise sfv.ToolError("FxTest did not run")
    log("setup ok")
    return 0

def selftest():
    log("selftest: not implemented yet")
    return 0

def replay(path):
    obj = json.load(open(path))
    wd = sfv.workdir("replay")
    if obj.get("kind") == "p1":
        alpha = sorted(set(obj["inputs"])) or [0]
        # keep the alphabet at least two symbols wide so that the index arithmetic is exercised
        scope = dict(obj.get("scope_rest", {}))
        scope.update({"cfgs": [obj["cfg"]], "alphabet": alpha, "maxlen": len(obj["inputs"])})
        run = Run("replay", "quick", "model_checking")
        run.prop = obj["property"]
        run.known = []
        scope2 = None
        if "alphabet2" in obj:
            scope["alphabet"] = obj["alphabet"]
            scope2 = dict(obj.get("scope2_rest", {}))
            scope2.update({"cfgs": [obj["cfg2"]], "alphabet": obj["alphabet2"], "maxlen": len(obj["inputs"])})
            if "cfgs2" in scope:
                scope["cfgs2"] = [obj["cfg2"]]
        res = p1_job(run, "replay", obj["module"], scope, profile=obj.get("profile", "dev"), extra_env=obj.get("env") or None, scope2=scope2)
        hit = [v for v in run.violations if v["detail"]["inputs"] == obj["inputs"] and v["clause"] == obj["clause"]]
        # show what the real code answers along this history
        inp = os.path.join(wd, "in.ndjson"); outp = os.path.join(wd, "out.ndjson")
        json.dump({"id": 1, "unit": obj.get("unit", 1), "float": obj.get("float", "f64"),
                   "prog": [["new", 0, obj["cfg"]], ["us", 0, obj["inputs"]]]}, open(inp, "w"))
        sfv.harness("run", inp, outp, obj.get("profile", "dev"))
        r = json.loads(open(outp).readline())
        log("cfg:", json.dumps(obj["cfg"]), "unit:", obj.get("unit", 1))
        for x, o in zip(obj["inputs"], r["res"][1]):
            log("   update(%s) -> last() = %s" % (x, sfv.obs_to_float(o)))
        if hit:
            log("VIOLATION property=%s replay=%s" % (obj["property"], path))
            return 1
        log("replay: the recorded violation does not reproduce on the current tree")
        return 0
    log("unknown replay kind")
    return 2
