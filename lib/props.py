"""Per-property checks: scopes, jobs, evidence.  See DESIGN.md section 5."""
import json, os, sys, time
import sfv
from sfv import Run, p1_job, pair_job, log

CHECKS = {}

def check(pid):
    def deco(f):
        CHECKS[pid] = f
        return f
    return deco

def cfgs(kinds, ns, **extra):
    out = []
    for k in kinds:
        for n in ns:
            d = {"k": k, "n": n}
            d.update(extra)
            out.append(d)
    return out

# ------------------------------------------------------------------------------------------------
@check("C02")
def c02(tier):
    run = Run("C02", tier, "model_checking")
    kinds = ["Sma", "Cumulative", "Min", "Max", "WelfordOnline", "HLNormalizer", "Roc", "BinaryEntropy", "Vst", "Vsct"]
    A = [-2, 0, 1, 3]
    if tier == "quick":
        plan = [(1, 4, A), (2, 5, A), (3, 6, A), (4, 7, [-2, 0, 3])]
    else:
        plan = [(1, 5, A), (2, 6, A), (3, 7, A), (4, 8, A), (5, 9, [-2, 0, 3]), (6, 10, [-2, 0, 3]), (7, 10, [-2, 0, 3])]
    for n, L, alpha in plan:
        run.submit(p1_job, "w-n%d" % n, "MC_Def", {"prop": "C02", "cfgs": cfgs(kinds, [n]), "alphabet": alpha, "unit": 1, "maxlen": L, "extras": True})
    # decimal unit: same definitions on inputs k/10 (not exactly representable): the statement allows rounding noise
    # proportional to the magnitude; sqrt-type outputs amplify 1e-16 to 1e-8, hence 1e-6 here (C16's figure)
    run.submit(p1_job, "w-dec", "MC_Def", {"prop": "C02", "cfgs": cfgs(kinds, [2, 3]), "alphabet": [-7, 0, 3, 12], "unit": 10, "maxlen": 5 if tier == "quick" else 7, "extras": True,
                                   "eps": [1, 1000000]})
    return run.finish("every input sequence over the alphabet up to maxlen, for every listed view and window length; "
                      "non-trivial = states in which the definition fixes the answer (exact value, fixed-point value, None or hold)")

RULE_DEF = ("every input sequence over the alphabet up to maxlen, for every listed view and window length; "
            "non-trivial = states in which the definition fixes the answer (exact value, fixed-point value, None or hold)")

# ------------------------------------------------------------------------------------------------
@check("C05")
def c05(tier):
    run = Run("C05", tier, "model_checking")
    kinds = ["Rsi", "MyRSI"]
    plan = [(1, 5), (2, 6), (3, 7), (4, 8)] if tier == "quick" else [(1, 7), (2, 8), (3, 9), (4, 10), (5, 10), (6, 11)]
    for alpha in ([0, 1, 3], [-2, 0, 2]):
        for n, L in plan:
            run.submit(p1_job, "rsi-n%d-a%d" % (n, alpha[0]), "MC_Def", {"prop": "C05", "cfgs": cfgs(kinds, [n]), "alphabet": alpha, "unit": 1, "maxlen": L})
    return run.finish(RULE_DEF)

@check("C06")
def c06(tier):
    run = Run("C06", tier, "model_checking")
    kinds = ["CorrelationTrendIndicator", "NoiseEliminationTechnology", "CenterOfGravity"]
    if tier == "quick":
        plan = [(3, 6, [0, 1, 2, 3]), (4, 7, [0, 1, 3]), (5, 8, [0, 1, 3]), (3, 6, [-2, 0, 1])]
    else:
        plan = [(3, 7, [0, 1, 2, 3]), (4, 8, [0, 1, 2, 3]), (5, 9, [0, 1, 3]), (6, 10, [0, 1, 3]), (7, 10, [0, 1, 3]),
                (3, 7, [-2, 0, 1, 2]), (4, 8, [-2, 0, 1]), (8, 11, [0, 2])]
    for n, L, alpha in plan:
        run.submit(p1_job, "trend-n%d-a%d" % (n, alpha[0]), "MC_Def", {"prop": "C06", "cfgs": cfgs(kinds, [n]), "alphabet": alpha, "unit": 1, "maxlen": L})
    return run.finish(RULE_DEF)

@check("C13")
def c13(tier):
    run = Run("C13", tier, "model_checking")
    cf = [{"k": "WelfordRolling"}, {"k": "Drawdown"}, {"k": "LnReturn"}]
    L = 7 if tier == "quick" else 9
    run.submit(p1_job, "roll-int", "MC_Def", {"prop": "C13", "cfgs": cf, "alphabet": [1, 2, 4, 7], "unit": 1, "maxlen": L, "extras": True})
    run.submit(p1_job, "roll-dec", "MC_Def", {"prop": "C13", "cfgs": cf, "alphabet": [5, 12, 20, 31], "unit": 10, "maxlen": L - 1, "extras": True,
                                      "eps": [1, 1000000]})
    return run.finish(RULE_DEF)

E = {"k": "Echo"}
def ema(n): return {"k": "Ema", "n": n}
def sma(n): return {"k": "Sma", "n": n}

@check("C11")
def c11(tier):
    run = Run("C11", tier, "model_checking")
    def views(n):
        v = [{"k": "SuperSmoother", "n": n}, {"k": "LaguerreRSI", "n": n}, {"k": "CyberCycle", "n": n},
             {"k": "RoofingFilter", "n": n, "m": 2}, {"k": "RoofingFilter", "n": n, "m": 3},
             {"k": "EhlersFisherTransform", "n": n, "c": [E, ema(2)]}, {"k": "EhlersFisherTransform", "n": n, "c": [E, sma(2)]},
             {"k": "EhlersFisherTransform", "n": n, "c": [E, E]}]
        if n >= 3:
            v += [{"k": "TrendFlex", "n": n}, {"k": "ReFlex", "n": n},
                  {"k": "PolarizedFractalEfficiency", "n": n, "c": [E, ema(3)]}, {"k": "PolarizedFractalEfficiency", "n": n, "c": [E, sma(2)]},
                  {"k": "PolarizedFractalEfficiency", "n": n, "c": [E, E]}]
        return v
    lag = [{"k": "LaguerreFilter", "g": g} for g in ([0, 1], [1, 2], [3, 4], [1, 5])]
    if tier == "quick":
        plan = [(1, 5, [0, 1, 3]), (2, 6, [0, 1, 3]), (3, 7, [0, 1, 3]), (4, 7, [1, 2, 4]), (5, 9, [0, 3]), (8, 11, [1, 4])]
    else:
        plan = [(1, 7, [0, 1, 3]), (2, 8, [0, 1, 3]), (3, 9, [0, 1, 3]), (4, 9, [0, 1, 3]), (5, 10, [1, 2, 4]), (6, 10, [0, 1, 3]),
                (7, 12, [0, 3]), (8, 13, [1, 4]), (10, 14, [0, 3]), (12, 15, [1, 4]), (16, 18, [0, 3]), (20, 18, [1, 4])]
    for n, L, alpha in plan:
        run.submit(p1_job, "ehlers-n%d" % n, "MC_Def", {"prop": "C11", "cfgs": views(n), "alphabet": alpha, "unit": 1, "maxlen": L})
    run.submit(p1_job, "laguerre", "MC_Def", {"prop": "C11", "cfgs": lag, "alphabet": [-2, 0, 1, 3], "unit": 1, "maxlen": 6 if tier == "quick" else 8})
    return run.finish(RULE_DEF)

@check("C14")
def c14(tier):
    run = Run("C14", tier, "model_checking")
    K = [E, {"k": "Constant", "v": [3, 2]}, sma(2), {"k": "Roc", "n": 1}]
    cf = [{"k": b, "c": [x, y]} for b in ("Add", "Subtract", "Multiply", "Divide") for x in K for y in K]
    cf += [{"k": g, "v": v, "c": [x]} for g in ("GTE", "LTE") for v in ([1, 2], [0, 1], [-3, 4]) for x in K]
    cf += [{"k": "Tanh", "c": [x]} for x in K] + [E, {"k": "Constant", "v": [3, 2]}, {"k": "Constant", "v": [-1, 4]}]
    L = 4 if tier == "quick" else 6
    run.submit(p1_job, "pointwise", "MC_Def", {"prop": "C14", "cfgs": cf, "alphabet": [-3, 0, 1, 4], "unit": 2, "maxlen": L, "bitexact": True})
    Kp = [E, {"k": "LnReturn"}, sma(2), {"k": "Constant", "v": [5, 4]}]
    cfp = [{"k": b, "c": [x, y]} for b in ("Add", "Subtract", "Multiply", "Divide") for x in Kp for y in Kp if "LnReturn" in (x["k"], y["k"])]
    cfp += [{"k": g, "v": [1, 4], "c": [{"k": "LnReturn"}]} for g in ("GTE", "LTE")] + [{"k": "Tanh", "c": [{"k": "LnReturn"}]}]
    run.submit(p1_job, "pointwise-pos", "MC_Def", {"prop": "C14", "cfgs": cfp, "alphabet": [1, 2, 3, 8], "unit": 2, "maxlen": L, "bitexact": True})
    return run.finish(RULE_DEF)

def c04_cfgs(n):
    return [sma(n), ema(n), {"k": "Alma", "n": n}, {"k": "Ema", "n": n, "alpha": [1, 1]}, {"k": "Ema", "n": n, "alpha": [1, 2]},
            {"k": "Ema", "n": n, "alpha": [3, 1]}, {"k": "Alma", "n": n, "sigma": [3, 1], "offset": [1, 2]},
            {"k": "Alma", "n": n, "sigma": [10, 1], "offset": [9, 10]}]

@check("C04")
def c04(tier):
    run = Run("C04", tier, "model_checking")
    plan = [(1, 4), (2, 5), (3, 6), (4, 7)] if tier == "quick" else [(1, 5), (2, 7), (3, 8), (4, 9), (5, 10), (6, 10)]
    for n, L in plan:
        alpha = [-2, 0, 2] if n % 2 else [-2, 0, 1, 3]
        if L >= 7:
            alpha = [-2, 0, 2]
        sc = {"prop": "C04", "cfgs": c04_cfgs(n), "alphabet": alpha, "unit": 1, "maxlen": L}
        # recurrence (Ema, every alpha) and kernel (Alma) clauses: the definition
        run.submit(p1_job, "avg-def-n%d" % n, "MC_Def", sc)
        # interval / constant / monotone for the averages the statement names (default alpha)
        sc2 = dict(sc); sc2["cfgs"] = [sma(n), ema(n), {"k": "Alma", "n": n}, {"k": "Alma", "n": n, "sigma": [3, 1], "offset": [1, 2]}]
        run.submit(p1_job, "avg-rel-n%d" % n, "MC_C04", sc2, nontrivial_keys=("interval",))
        # affine clause: the same history run through x -> a*x+b
        for a, b in (([2, 1], [5, 1]), ([1, 2], [-1, 1]), ([3, 1], [0, 1])):
            rel_job(run, "avg-affine-n%d-a%d_%d" % (n, a[0], a[1]), "C04", sc2["cfgs"], alpha, 1, min(L, 6), a, b, "affine")
    return run.finish(RULE_DEF + "; for the interval/constant/monotone clauses: states in which the average reports a value")

def rel_job(run, name, prop, cf, alphabet, unit, L, a, b, mode, bitexact=False, cfgs2=None):
    """two real runs per history: x and a*x+b (a = [num,den], b = [num,den]); decided by MC_Rel"""
    an, ad = a; bn, bd = b
    unit2 = ad * bd * unit
    alpha2 = [an * bd * x + bn * ad * unit for x in alphabet]
    sc = {"prop": prop, "cfgs": cf, "alphabet": alphabet, "unit": unit, "maxlen": L, "a": a, "b": b, "mode": mode}
    if bitexact:
        sc["bitexact"] = True
    if cfgs2:
        sc["cfgs2"] = cfgs2
    sc2 = {"cfgs": cfgs2 or cf, "alphabet": alpha2, "unit": unit2, "maxlen": L}
    run.submit(p1_job, name, "MC_Rel", sc, scope2=sc2,
               nontrivial_keys=("rel.inv", "rel.scale", "rel.affine", "rel.neg", "rel.rsi"))

def c12_cfgs(n):
    v = cfgs(["HLNormalizer", "Vsct", "CorrelationTrendIndicator", "NoiseEliminationTechnology", "Rsi", "MyRSI", "LaguerreRSI", "Vst", "Roc",
              "CenterOfGravity", "BinaryEntropy", "Min", "Max", "Sma", "Ema", "Alma", "Cumulative", "WelfordOnline", "SuperSmoother",
              "CyberCycle"], [n])
    v += [{"k": "EhlersFisherTransform", "n": n, "c": [E, ema(2)]}, {"k": "RoofingFilter", "n": n, "m": 2}, {"k": "LaguerreFilter", "g": [1, 2]}]
    if n >= 3:
        v += cfgs(["TrendFlex", "ReFlex"], [n])
    return v
def swap_minmax(cf):
    return [dict(c, k={"Min": "Max", "Max": "Min"}.get(c["k"], c["k"])) for c in cf]

@check("C12")
def c12(tier):
    run = Run("C12", tier, "model_checking")
    plan = [(1, 4), (2, 5), (3, 6), (4, 7)] if tier == "quick" else [(1, 5), (2, 6), (3, 7), (4, 8), (5, 9), (6, 9)]
    for n, L in plan:
        A = [-2, 0, 1, 3] if L <= 5 else [-2, 0, 3]
        cf = c12_cfgs(n)
        rel_job(run, "scale2-n%d" % n, "C12", cf, A, 1, L, [2, 1], [0, 1], "scale", bitexact=True)
        rel_job(run, "scale3h-n%d" % n, "C12", cf, A, 1, L, [3, 2], [0, 1], "scale")
        rel_job(run, "affine-n%d" % n, "C12", cf, A, 1, L, [3, 1], [5, 2], "affine")
        rel_job(run, "neg-n%d" % n, "C12", cf, A, 1, L, [-1, 1], [0, 1], "neg", cfgs2=swap_minmax(cf))
    # positive-domain views
    pos = [{"k": "LnReturn"}, {"k": "Drawdown"}]
    rel_job(run, "pos-scale2", "C12", pos, [1, 2, 4, 7], 1, 6 if tier == "quick" else 8, [2, 1], [0, 1], "scale", bitexact=True)
    rel_job(run, "pos-scale3", "C12", pos, [1, 2, 4, 7], 1, 6 if tier == "quick" else 8, [3, 1], [0, 1], "scale")
    return run.finish("every input sequence over the alphabet up to maxlen, run twice through the real view (x and a*x+b); "
                      "non-trivial = states in which the statement fixes a relation, the window is not flat and both runs report a value")

@check("C03")
def c03(tier):
    run = Run("C03", tier, "model_checking")
    W = ["Sma", "Cumulative", "Min", "Max", "Roc", "WelfordOnline", "Vst", "Vsct", "HLNormalizer", "BinaryEntropy", "CenterOfGravity",
         "CorrelationTrendIndicator", "NoiseEliminationTechnology", "Rsi", "MyRSI", "Alma"]
    def cf(n):
        v = cfgs(W, [n])
        if n >= 3:
            v += [{"k": "PolarizedFractalEfficiency", "n": n, "c": [E, sma(2)]}, {"k": "PolarizedFractalEfficiency", "n": n, "c": [E, sma(3)]}]
        return v
    pairs = [([], [7]), ([100], [-50, 7]), ([7, 100, -50], [100]), ([-50, -50, 100, 7, 100], [7, 7])]
    if tier != "quick":
        pairs += [([100, 7], [7, 100]), ([1000000, -999999, 3], []), ([5] * 9, [100, -50] * 6)]
    plan = [(1, 4), (2, 6), (3, 7)] if tier == "quick" else [(1, 5), (2, 7), (3, 8), (4, 9), (5, 10)]
    for n, L in plan:
        A = [-2, 0, 1, 3] if L <= 5 else ([-2, 0, 3] if L <= 8 else [0, 3])
        for i, (p1, p2) in enumerate(pairs):
            mm = max([abs(x) for x in p1 + p2 + A])
            sc = {"cfgs": cf(n), "alphabet": A, "unit": 1, "maxlen": L, "prefix": p1, "maxmag": mm}
            sc2 = dict(sc); sc2["prefix"] = p2
            run.submit(p1_job, "mem-n%d-p%d" % (n, i), "MC_C03", sc, scope2=sc2, nontrivial_keys=("agree",))
    return run.finish("two real runs with different prefixes (lengths 0..12, magnitudes up to 1e6) and every common suffix over the alphabet; "
                      "non-trivial = states with at least K common values in which the view is not holding")

def c10_cfgs(n):
    v = cfgs(["Sma", "Ema", "Alma", "Cumulative", "SuperSmoother", "CyberCycle"], [n])
    v += [{"k": "RoofingFilter", "n": n, "m": 2}, {"k": "Ema", "n": n, "alpha": [1, 1]}]
    return v
LAG = [{"k": "LaguerreFilter", "g": g} for g in ([0, 1], [1, 2], [3, 4])]

@check("C10")
def c10(tier):
    run = Run("C10", tier, "model_checking")
    B = [-3, -2, -1, 0, 1, 2, 3]
    combos = [[1, 1], [1, -1], [2, -1], [-2, 1]]
    plan = [(1, 4), (2, 4), (3, 5)] if tier == "quick" else [(1, 5), (2, 5), (3, 5), (4, 6), (5, 6)]
    for n, L in plan:
        cf = c10_cfgs(n) + (LAG if n == 1 else [])
        run.submit(pair_job, "add-n%d" % n, {"cfgs": cf, "alphabet": B, "pair_alphabet": [-1, 0, 1], "combos": combos, "unit": 1, "maxlen": L})
        for a in ([-2, 1], [3, 1], [0, 1], [1, 3]):
            rel_job(run, "homog-n%d-a%d_%d" % (n, a[0], a[1]), "C10", cf, [-2, 0, 1, 3], 1, min(L + 1, 6), a, [0, 1], "scale")
    return run.finish("pairs of input sequences (x, y) over {-1,0,1} with a*x+b*y for four (a,b), and every sequence with its multiple a*x "
                      "(a = -2, 3, 0, 1/3), each run through the real view; non-trivial = states where all runs report a value")

WINDOWED = ["Sma", "Cumulative", "Min", "Max", "WelfordOnline", "Vst", "Vsct", "HLNormalizer", "Roc", "BinaryEntropy", "Rsi", "MyRSI",
            "CenterOfGravity", "CorrelationTrendIndicator", "NoiseEliminationTechnology", "Alma", "Ema", "LaguerreRSI", "CyberCycle",
            "SuperSmoother", "TrendFlex", "ReFlex"]

def with_child(cfg, inner):
    """the same outer view over `inner` instead of Echo (first child slot)"""
    d = dict(cfg)
    c = list(d.get("c", []))
    if c:
        c[0] = inner
    else:
        c = [inner]
    d["c"] = c
    return d

def catalogue(n, positive=False, m=2):
    """every kind of view of the crate with window n over Echo (positive: include the positive-domain views)"""
    v = cfgs(WINDOWED, [n])
    v += [{"k": "RoofingFilter", "n": n, "m": m}, {"k": "EhlersFisherTransform", "n": n, "c": [E, ema(2)]},
          {"k": "PolarizedFractalEfficiency", "n": n, "c": [E, ema(2)]}, {"k": "PolarizedFractalEfficiency", "n": n, "c": [E, sma(2)]},
          {"k": "LaguerreFilter", "g": [1, 2]}, {"k": "WelfordRolling"}, E, {"k": "Constant", "v": [3, 2]},
          {"k": "GTE", "v": [1, 2]}, {"k": "LTE", "v": [1, 2]}, {"k": "Tanh"},
          {"k": "Add", "c": [E, sma(n)]}, {"k": "Subtract", "c": [sma(n), E]}, {"k": "Multiply", "c": [E, {"k": "Roc", "n": n}]},
          {"k": "Divide", "c": [E, {"k": "Constant", "v": [3, 2]}]}]
    if positive:
        v += [{"k": "Drawdown"}, {"k": "LnReturn"}, {"k": "Divide", "c": [sma(n), E]}]
    return v

def label(cfg):
    k = cfg.get("k", "?")
    inner = [c.get("k") for c in cfg.get("c", []) if c.get("k") not in ("Echo",)]
    return k + ("(" + ",".join(inner) + ")" if inner else "")

@check("C07")
def c07(tier):
    run = Run("C07", tier, "model_checking")
    def bounded(n):
        v = cfgs(["Rsi", "MyRSI", "HLNormalizer", "CorrelationTrendIndicator", "NoiseEliminationTechnology", "LaguerreRSI", "BinaryEntropy",
                  "WelfordOnline", "Vsct", "Min", "Max", "Sma", "Alma"], [n])
        v += [E, {"k": "Tanh"}, {"k": "GTE", "v": [1, 2]}, {"k": "LTE", "v": [1, 2]}, {"k": "WelfordRolling"},
              {"k": "EhlersFisherTransform", "n": n, "c": [E, ema(2)]}, {"k": "EhlersFisherTransform", "n": n, "c": [E, E]}]
        if n >= 3:
            v += [{"k": "PolarizedFractalEfficiency", "n": n, "c": [E, ema(2)]}, {"k": "PolarizedFractalEfficiency", "n": n, "c": [E, sma(3)]}]
        return v
    plan = [(2, 5), (3, 6), (4, 7)] if tier == "quick" else [(2, 6), (3, 7), (4, 8), (5, 9), (6, 10)]
    for n, L in plan:
        A = [-2, 0, 1, 3] if L <= 6 else [-2, 0, 3]
        run.submit(p1_job, "rng-int-n%d" % n, "MC_Obs", {"prop": "C07", "cfgs": bounded(n), "alphabet": A, "unit": 1, "maxlen": L},
               nontrivial_keys=None, view_label=label)
        run.submit(p1_job, "rng-dec-n%d" % n, "MC_Obs", {"prop": "C07", "cfgs": bounded(n), "alphabet": [-7, 0, 3, 12][:len(A)], "unit": 10, "maxlen": L},
               nontrivial_keys=None, view_label=label)
        pos = [{"k": "Drawdown"}, {"k": "CenterOfGravity", "n": n}, {"k": "Min", "n": n}, {"k": "Max", "n": n}, sma(n), {"k": "Alma", "n": n}, E]
        run.submit(p1_job, "rng-pos-n%d" % n, "MC_Obs", {"prop": "C07", "cfgs": pos, "alphabet": [1, 3, 10, 11][:len(A)], "unit": 10, "maxlen": L},
               nontrivial_keys=None, view_label=label)
    return run.finish("every input sequence over the alphabet up to maxlen for every bounded view; non-trivial = states in which a bounded "
                      "view reports a value (the range predicate is evaluated there)")

@check("C08")
def c08(tier):
    run = Run("C08", tier, "model_checking")
    plan = [(1, 4), (2, 5), (3, 6), (4, 7)] if tier == "quick" else [(1, 5), (2, 6), (3, 7), (4, 8), (5, 9), (6, 10)]
    for n, L in plan:
        for prof in ("dev", "release"):
            if prof == "release" and tier == "quick" and n == 4:
                continue
            run.submit(p1_job, "rdy-n%d-%s" % (n, prof), "MC_Obs", {"prop": "C08", "cfgs": catalogue(n), "alphabet": [-1, 0, 1] if L <= 7 else [-1, 1], "unit": 1, "maxlen": L},
                   profile=prof, nontrivial_keys=("ready.yes", "ready.no"), view_label=label)
            run.submit(p1_job, "rdy-flat-n%d-%s" % (n, prof), "MC_Obs", {"prop": "C08", "cfgs": catalogue(n), "alphabet": [0, 5], "unit": 1, "maxlen": L + 2},
                   profile=prof, nontrivial_keys=("ready.yes", "ready.no"), view_label=label)
            run.submit(p1_job, "rdy-pos-n%d-%s" % (n, prof), "MC_Obs", {"prop": "C08", "cfgs": catalogue(n, positive=True), "alphabet": [1, 2, 4], "unit": 1, "maxlen": L},
                   profile=prof, nontrivial_keys=("ready.yes", "ready.no"), view_label=label)
    # chains: an inner view delays / thins what the outer one is delivered
    inners = [sma(2), {"k": "Roc", "n": 1}, {"k": "LaguerreRSI", "n": 2}] + ([sma(3), {"k": "Rsi", "n": 2}] if tier != "quick" else [])
    for inner in inners:
        ch = [with_child(o, inner) for o in catalogue(2) if o["k"] not in ("Echo", "Constant", "Add", "Subtract", "Multiply", "Divide")]
        run.submit(p1_job, "rdy-chain-%s%s" % (inner["k"], inner.get("n", "")), "MC_Obs", {"prop": "C08", "cfgs": ch, "alphabet": [-1, 0, 1], "unit": 1, "maxlen": 6},
               nontrivial_keys=("ready.yes", "ready.no", "undelivered"), view_label=label)
    ch = [with_child(o, {"k": "LnReturn"}) for o in catalogue(2) if o["k"] not in ("Echo", "Constant", "Add", "Subtract", "Multiply", "Divide")]
    run.submit(p1_job, "rdy-chain-LnReturn", "MC_Obs", {"prop": "C08", "cfgs": ch, "alphabet": [1, 2, 4], "unit": 1, "maxlen": 6},
           nontrivial_keys=("ready.yes", "ready.no", "undelivered"), view_label=label)
    return run.finish("every input sequence over the alphabet up to maxlen for every view of the catalogue (debug and release builds) and "
                      "two-level chains; non-trivial = states in which the documentation fixes readiness (yes/no) or the view was delivered nothing")

@check("C15")
def c15(tier):
    run = Run("C15", tier, "model_checking")
    nk = ("nopanic",)
    for prof in ("dev", "release"):
        for n, L in ([(1, 4), (2, 5), (3, 6), (4, 7)] if tier == "quick" else [(1, 5), (2, 6), (3, 7), (4, 8), (5, 9)]):
            run.submit(p1_job, "np-n%d-%s" % (n, prof), "MC_Obs", {"prop": "C15", "cfgs": catalogue(n), "alphabet": [-1, 0, 1], "unit": 1, "maxlen": L},
                   profile=prof, nontrivial_keys=nk, view_label=label)
            run.submit(p1_job, "np-pos-n%d-%s" % (n, prof), "MC_Obs", {"prop": "C15", "cfgs": catalogue(n, positive=True), "alphabet": [1, 2, 4], "unit": 2, "maxlen": L},
                   profile=prof, nontrivial_keys=nk, view_label=label)
        # windows longer than the stream / long windows: constant and two-symbol streams (index arithmetic does not depend on data)
        big = list(range(5, 65)) if tier != "quick" else [5, 6, 7, 8, 12, 16, 31, 32, 33, 63, 64]
        allbig = [c for n in big for c in catalogue(n, m=(n % 3) + 1) if "n" in c or c["k"] in ("Add", "Subtract", "Multiply")]
        for a in ([0], [1]):
            run.submit(p1_job, "np-const%d-%s" % (a[0], prof), "MC_Obs", {"prop": "C15", "cfgs": allbig, "alphabet": a, "unit": 1, "maxlen": 68},
                   profile=prof, nontrivial_keys=nk, view_label=label)
        mid = [c for n in (5, 6, 7, 8) for c in catalogue(n) if "n" in c]
        run.submit(p1_job, "np-mid-%s" % prof, "MC_Obs", {"prop": "C15", "cfgs": mid, "alphabet": [-1, 2], "unit": 1, "maxlen": 11},
               profile=prof, nontrivial_keys=nk, view_label=label)
        # two-level chains
        inners = [sma(2), {"k": "Roc", "n": 1}, {"k": "Cumulative", "n": 1}] if tier == "quick" else [c for c in catalogue(2) if c["k"] not in ("Constant",)]
        for i, inner in enumerate(inners):
            ch = [with_child(o, inner) for n in (1, 3) for o in catalogue(n) if o["k"] not in ("Echo", "Constant")]
            run.submit(p1_job, "np-chain%d-%s" % (i, prof), "MC_Obs", {"prop": "C15", "cfgs": ch, "alphabet": [-1, 0, 1], "unit": 1, "maxlen": 5},
                   profile=prof, nontrivial_keys=nk, view_label=label)
    return run.finish("every input sequence over the alphabet up to maxlen, for every view of the catalogue, windows 1..64, two-level chains, "
                      "debug-assertion and release builds; non-trivial = observations of accepted configurations (each is checked for panic)")

# ------------------------------------------------------------------------------------------------
def setup():
    sfv.ensure_java()
    sfv.build_harness("dev")
    sfv.build_harness("release")
    wd = sfv.workdir("setup")
    sfv.sh([sys.executable, os.path.join(sfv.VERIF, "lib", "gen_wide_vectors.py"), os.path.join(wd, "wvec.ndjson")])
    sfv.sh([sys.executable, os.path.join(sfv.VERIF, "lib", "gen_fx_vectors.py"), os.path.join(wd, "fvec.ndjson")])
    r = sfv.run_tlc("WideTest", "WideTest.cfg", {"WVEC": os.path.join(wd, "wvec.ndjson")}, wd, workers=1, timeout=600)
    if "WideTest" not in r["out"]:
        raise sfv.ToolError("WideTest did not run")
    r = sfv.run_tlc("FxTest", "FxTest.cfg", {"FVEC": os.path.join(wd, "fvec.ndjson")}, wd, workers=1, timeout=600)
    if "FxTest" not in r["out"]:
        raise sfv.ToolError("FxTest did not run")
    log("setup ok")
    return 0

def selftest():
    log("selftest: not implemented yet")
    return 0

def replay(path):
    obj = json.load(open(path))
    wd = sfv.workdir("replay")
    if obj.get("kind") == "p1":
        alpha = sorted(set(obj["inputs"])) or [0]
        # keep the alphabet at least two symbols wide so that the index arithmetic is exercised
        scope = dict(obj.get("scope_rest", {}))
        scope.update({"cfgs": [obj["cfg"]], "alphabet": alpha, "maxlen": len(obj["inputs"])})
        run = Run("replay", "quick", "model_checking")
        run.prop = obj["property"]
        run.known = []
        scope2 = None
        if "alphabet2" in obj:
            scope["alphabet"] = obj["alphabet"]
            scope2 = dict(obj.get("scope2_rest", {}))
            scope2.update({"cfgs": [obj["cfg2"]], "alphabet": obj["alphabet2"], "maxlen": len(obj["inputs"])})
            if "cfgs2" in scope:
                scope["cfgs2"] = [obj["cfg2"]]
        res = p1_job(run, "replay", obj["module"], scope, profile=obj.get("profile", "dev"), extra_env=obj.get("env") or None, scope2=scope2)
        hit = [v for v in run.violations if v["detail"]["inputs"] == obj["inputs"] and v["clause"] == obj["clause"]]
        # show what the real code answers along this history
        inp = os.path.join(wd, "in.ndjson"); outp = os.path.join(wd, "out.ndjson")
        json.dump({"id": 1, "unit": obj.get("unit", 1), "float": obj.get("float", "f64"),
                   "prog": [["new", 0, obj["cfg"]], ["us", 0, obj["inputs"]]]}, open(inp, "w"))
        sfv.harness("run", inp, outp, obj.get("profile", "dev"))
        r = json.loads(open(outp).readline())
        log("cfg:", json.dumps(obj["cfg"]), "unit:", obj.get("unit", 1))
        for x, o in zip(obj["inputs"], r["res"][1]):
            log("   update(%s) -> last() = %s" % (x, sfv.obs_to_float(o)))
        if hit:
            log("VIOLATION property=%s replay=%s" % (obj["property"], path))
            return 1
        log("replay: the recorded violation does not reproduce on the current tree")
        return 0
    log("unknown replay kind")
    return 2
