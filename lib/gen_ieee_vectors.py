#!/usr/bin/env python3
"""Reference vectors for IEEETest.tla: python floats are IEEE-754 doubles; fractions give the exact values."""
import json, random, struct, sys
from fractions import Fraction as F

def key(v):
    b = struct.unpack("<Q", struct.pack("<d", v))[0]
    k = (~b & (2**64 - 1)) if b >> 63 else (b | (1 << 63))
    return [k >> 44, (k >> 22) & 0x3fffff, k & 0x3fffff]
def limbs(x):
    s = (x > 0) - (x < 0); x = abs(x); d = []
    while x:
        d.append(x % 10000); x //= 10000
    return [s, d]
def q(fr): return [limbs(fr.numerator), limbs(fr.denominator)]

def main(out, seed=7, n=400):
    rnd = random.Random(seed)
    vals = [0.5, 1.5, -1.5, 2.0, 3.0, 0.1, -0.3, 1e-5, 123456.789, 1/3, -7.25, 1e10, 2.5e-7, 100.0, 33.333333333333336]
    with open(out, "w") as f:
        for _ in range(n):
            a = rnd.choice(vals) * rnd.choice([1, rnd.random(), rnd.uniform(-5, 5)])
            b = rnd.choice(vals) * rnd.choice([1, rnd.random(), rnd.uniform(-5, 5)])
            if b == 0: b = 1.25
            for op, r, ex in (("add", a + b, F(a) + F(b)), ("sub", a - b, F(a) - F(b)), ("mul", a * b, F(a) * F(b)), ("div", a / b, F(a) / F(b))):
                f.write(json.dumps({"op": op, "ka": key(a), "kb": key(b), "kr": key(r), "qa": q(F(a)), "qb": q(F(b)), "exact": q(ex), "qr": q(F(r))}) + "\n")

if __name__ == "__main__":
    main(sys.argv[1])
