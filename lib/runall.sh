#!/bin/sh
# run every registered quick check sequentially; summary on stdout (developer convenience, not a registered command)
cd "$(dirname "$0")/.." || exit 2
mkdir -p work
for p in "$@"; do
  s=$(date +%s)
  ./check $p --tier ${TIER:-quick} > work/runall-$p.log 2>&1
  rc=$?
  e=$(date +%s)
  echo "$p rc=$rc $((e-s))s $(grep -c '^VIOLATION' work/runall-$p.log) violations $(grep -c '^KNOWN-FINDING' work/runall-$p.log) known; $(tail -1 work/runall-$p.log)"
done
