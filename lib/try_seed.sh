#!/bin/sh
# developer tool: apply a seeded change to /repo, run the given quick checks, undo it.  usage: try_seed.sh <patch.diff> C02 C03 ...
patch=$1; shift
cd /repo || exit 2
git diff --quiet || { echo "repo not clean"; exit 2; }
git apply "$patch" || { echo "patch does not apply"; exit 2; }
cd /verif
for p in "$@"; do
  ./check $p --tier ${TIER:-quick} > work/seed-$p.log 2>&1
  echo "$p rc=$? $(grep -c '^VIOLATION' work/seed-$p.log) VIOLATION lines; $(grep '^VIOLATION' work/seed-$p.log | head -3 | tr '\n' ' ')"
done
git -C /repo checkout -- .
git -C /repo status --short | head -3
