#!/usr/bin/env python3
"""Developer tool (not a registered check): a small mutation campaign against the quick tier.

  mutate.py <scratch-dir> [--per-file K] [--seed S] [--files a.rs b.rs ...]

It works on COPIES only: <scratch>/repo is a detached worktree of /repo's HEAD, <scratch>/verif a clone of /verif's HEAD
(so neither /repo nor /verif is touched and other work can go on there).  For every source file of the crate it draws K
single-site mutants (relational / arithmetic operator swaps, literals +-1, min<->max, front<->back, zero<->one, a deleted state
assignment, a negated condition), keeps those that still compile AND pass the crate's own 43 tests, and runs the quick checks
that name the mutated view (most specific first, stopping at the first that reports a VIOLATION), then - for survivors - every
other check.  One JSON line per mutant goes to <scratch>/results.ndjson; SURVIVED lines are the ones to look at (equivalent
mutant, or a gap in the checks)."""
import json, os, random, re, subprocess, sys, time

CHECKS_FOR = {
    "sma": ["C02", "C04", "C03", "C10"], "cumulative": ["C02", "C10", "C03"], "min": ["C02", "C07", "C03"], "max": ["C02", "C07", "C03"],
    "welford_online": ["C02", "C16", "C08"], "variance_stabilizing_transformation": ["C02", "C12", "C07"], "vsct": ["C02", "C12", "C07"],
    "hl_normalizer": ["C02", "C12", "C07", "C01"], "roc": ["C02", "C12", "C03"], "binary_entropy": ["C02", "C07", "C03"],
    "rsi": ["C05", "C07", "C12", "C16"], "my_rsi": ["C05", "C07", "C12", "C16"],
    "correlation_trend_indicator": ["C06", "C12", "C07"], "noise_elimination_technology": ["C06", "C12", "C07"], "center_of_gravity": ["C06", "C12", "C07"],
    "alma": ["C04", "C10", "C03"], "ema": ["C04", "C10", "C09", "C11"],
    "welford_rolling": ["C13", "C07", "C08"], "drawdown": ["C13", "C07", "C08"], "ln_return": ["C13", "C12", "C08"],
}
RECURSIVE = ["C11", "C09", "C10", "C12", "C08"]
PURE = ["C14", "C01", "C08"]
ALL = ["C%02d" % i for i in range(1, 19)]

def sh(cmd, cwd=None, env=None, timeout=3600):
    e = dict(os.environ); e.update(env or {})
    try:
        p = subprocess.run(cmd, cwd=cwd, env=e, stdout=subprocess.PIPE, stderr=subprocess.STDOUT, text=True, timeout=timeout)
        return p.returncode, p.stdout
    except subprocess.TimeoutExpired as ex:
        return 124, (ex.stdout or b"").decode() if isinstance(ex.stdout, bytes) else (ex.stdout or "")

SWAPS = [(" >= ", " > "), (" > ", " >= "), (" <= ", " < "), (" < ", " <= "), (" == ", " != "), (" != ", " == "),
         (" + ", " - "), (" - ", " + "), (" * ", " / "), (" / ", " * "),
         (".max(", ".min("), (".min(", ".max("), ("pop_front", "pop_back"), ("push_back", "push_front"),
         (".front()", ".back()"), (".back()", ".front()"), ("T::zero()", "T::one()"), ("T::one()", "T::zero()"),
         ("is_none()", "is_some()"), ("is_some()", "is_none()"), (" && ", " || "), (" || ", " && ")]
SKIP = re.compile(r"^\s*(//|use |pub use |#\[|impl|where|pub struct|struct|fn |pub fn |type |mod |pub mod |V: |T: |debug_assert|assert)")

def sites(path):
    """(line index, description, new line text or None for deletion)"""
    lines = open(path).read().split("\n")
    end = len(lines)
    for i, l in enumerate(lines):
        if l.strip().startswith("#[cfg(test)]"):
            end = i; break
    out = []
    for i in range(end):
        l = lines[i]
        if SKIP.match(l) or not l.strip() or "with_capacity" in l or l.strip().startswith('"'):
            continue        # capacity hints and message strings only yield equivalent mutants
        code = l.split("//")[0]
        for a, b in SWAPS:
            for m in re.finditer(re.escape(a), code):
                if a in (" < ", " > ", " <= ", " >= ") and re.search(r"(Vec|VecDeque|Option|Self|View|impl|dyn|Box|Rc|Cell)<", code):
                    continue
                out.append((i, "%s -> %s @%d" % (a.strip(), b.strip(), m.start()), l[:m.start()] + b + l[m.end():]))
        for m in re.finditer(r"(?<![\w.])(\d+)(\.\d+)?(?![\w.])", code):
            if m.group(2):
                v = float(m.group(0)); out.append((i, "literal %s -> %s" % (m.group(0), v + 1.0), l[:m.start()] + repr(v + 1.0) + l[m.end():]))
            else:
                v = int(m.group(1))
                out.append((i, "literal %d -> %d" % (v, v + 1), l[:m.start()] + str(v + 1) + l[m.end():]))
                if v > 0:
                    out.append((i, "literal %d -> %d" % (v, v - 1), l[:m.start()] + str(v - 1) + l[m.end():]))
        if re.match(r"^\s*self\.[\w.\[\]]+ (=|\+=|-=) .*;\s*$", code) or re.match(r"^\s*self\.[\w.]+\.(push_back|pop_front|pop_back|push_front|update|truncate|clear)\(.*\);\s*$", code):
            out.append((i, "delete statement", None))
        m = re.match(r"^(\s*(?:\} else )?if )(?!let )(.+) \{\s*$", code)
        if m:
            out.append((i, "negate condition", "%s!(%s) {" % (m.group(1), m.group(2))))
    return lines, out

def main():
    scratch = os.path.abspath(sys.argv[1])
    args = sys.argv[2:]
    per = int(args[args.index("--per-file") + 1]) if "--per-file" in args else 5
    seed = int(args[args.index("--seed") + 1]) if "--seed" in args else 1
    only = args[args.index("--files") + 1:] if "--files" in args else None
    repo, verif = os.path.join(scratch, "repo"), os.path.join(scratch, "verif")
    os.makedirs(scratch, exist_ok=True)
    if not os.path.isdir(repo):
        assert sh(["git", "-C", "/repo", "worktree", "add", "--detach", repo, "HEAD"])[0] == 0
    if not os.path.isdir(verif):
        assert sh(["git", "clone", "-q", "/verif", verif])[0] == 0
        os.makedirs(os.path.join(verif, "work"), exist_ok=True)
        rc, out = sh(["./check", "setup"], cwd=verif, env={"SFV_REPO": repo})
        assert rc == 0, out[-3000:]
    res = open(os.path.join(scratch, "results.ndjson"), "a")
    rnd = random.Random(seed)
    files = []
    for sub in ("sliding_windows", "rolling", "pure_functions"):
        d = os.path.join(repo, "src", sub)
        files += [os.path.join(d, f) for f in sorted(os.listdir(d)) if f.endswith(".rs") and f != "mod.rs"]
    if only:
        files = [f for f in files if os.path.basename(f) in only]
    for path in files:
        stem = os.path.basename(path)[:-3]
        lines, ss = sites(path)
        rnd.shuffle(ss)
        kept = 0
        for (i, desc, new) in ss:
            if kept >= per:
                break
            mut = list(lines)
            if new is None:
                del mut[i]
            else:
                mut[i] = new
            open(path, "w").write("\n".join(mut))
            t0 = time.time()
            rc, out = sh(["cargo", "test", "--offline", "--lib"], cwd=repo, env={"CARGO_NET_OFFLINE": "true"}, timeout=600)
            sh(["git", "checkout", "-q", "--", "img"], cwd=repo)
            rec = {"file": stem, "line": i + 1, "mutation": desc, "orig": lines[i].strip(), "new": None if new is None else new.strip()}
            if rc != 0 or "43 passed" not in out:
                rec["status"] = "does-not-compile" if "error" in out and "test result" not in out else "killed-by-crate-tests"
                res.write(json.dumps(rec) + "\n"); res.flush()
                open(path, "w").write("\n".join(lines))
                continue
            kept += 1
            first = CHECKS_FOR.get(stem) or (PURE if "pure_functions" in path else RECURSIVE)
            order = first + [c for c in ALL if c not in first]
            status, tried = "SURVIVED", []
            for c in order:
                rc, out = sh(["./check", c, "--tier", "quick"], cwd=verif, env={"SFV_REPO": repo, "VERIF_SEED": "1"}, timeout=3000)
                tried.append("%s:%d" % (c, rc))
                if rc == 1 and "VIOLATION property=" in out:
                    status = "caught-by-" + c
                    rec["clause"] = [l for l in out.split("\n") if l.startswith("VIOLATION")][:2]
                    break
            rec.update(status=status, tried=tried, secs=int(time.time() - t0))
            res.write(json.dumps(rec) + "\n"); res.flush()
            print(stem, i + 1, desc, status, tried[-1], flush=True)
            open(path, "w").write("\n".join(lines))
    sh(["git", "checkout", "--", "."], cwd=repo)

if __name__ == "__main__":
    main()
