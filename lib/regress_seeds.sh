#!/bin/sh
# developer tool: apply every seeded change to a repo copy ($SFV_REPO, default /repo - which must be clean), run the quick check(s)
# named in its meta.json, undo it.  Prints one line per seed: CAUGHT / MISSED.
cd "$(dirname "$0")/.." || exit 2
mkdir -p work
REPO=${SFV_REPO:-/repo}
git -C $REPO diff --quiet || { echo "repo not clean"; exit 2; }
for d in seeded/*/; do
  name=$(basename $d)
  [ -f $d/meta.json ] || continue     # refactor-*: no alarm expected, not part of this regression
  checks=$(python3 -c "
import json,re,sys
m=json.load(open('$d/meta.json'))
ids=re.findall(r'(C\d\d) quick', m.get('caught_by',''))
print(' '.join(dict.fromkeys(ids[:2])))")
  git -C $REPO apply "$PWD/$d/patch.diff" || { echo "$name: PATCH-DOES-NOT-APPLY"; continue; }
  res=""
  for p in $checks; do
    ./check $p --tier quick > work/regress-$name-$p.log 2>&1
    rc=$?
    res="$res $p:rc=$rc"
  done
  git -C $REPO checkout -- .
  case "$res" in *rc=1*) echo "$name: CAUGHT ($res )";; *) echo "$name: MISSED ($res )";; esac
done
