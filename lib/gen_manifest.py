#!/usr/bin/env python3
"""Regenerates /verif/MANIFEST.json from the table below (kept next to the checks it describes)."""
import json, os, subprocess
V = os.path.dirname(os.path.dirname(os.path.abspath(__file__)))
props = [json.loads(l)["id"] for l in open(os.path.join(V, "properties.jsonl"))]

TRUSTED = ("Assumes: TLC and the CommunityModules Json/IOUtils; the Wide/Rat/Fx TLA+ libraries (self-tested against 50-digit "
           "references in setup, with and without the BigInteger override); the harness' encoding of an f64 as a 12-decimal integer plus "
           "order-preserving bit key; rustc/cargo building /repo's working tree. The specification has no model of IEEE rounding: "
           "observations are data, compared with exact rational / 20-decimal definitions within the stated tolerance.")

P1 = ("Exhaustive product (pipeline P1): the harness runs the real view on every input sequence of the scope, TLC walks the same tree "
      "and evaluates the property as an invariant of the TLA+ specification in every state against the real observation there. ")

CLAIMS = {
 "C02": ("model_checking", P1 + "Definitions (mean, sum, extrema, Welford mean/std through its square, HL normalisation, Roc with base/hold, "
         "binary entropy, Vst, Vsct) are exact rationals over the last N values; small-integer and decimal alphabets, units of 1e-9 and 1e6, "
         "N=1..4 (quick) / 1..7 (thorough); recorded streams at N=6..33 (100) validated on the ghost window (P3); the same scopes through the "
         "implementation-shaped machines (MC_Model: machine = definition; ProdM: observation = machine) and Apalache inductive invariants "
         "(Ind_Sma, Ind_Ext, Ind_HL, Ind_Count: all integers, all stream lengths).",
         "exhaustive model checking of TLA+ definitions against the implementation's complete behaviour tree", "5 C02"),
 "C05": ("model_checking", P1 + "Rsi / MyRSI against exact G, L over the N most recent changes (with hold on flat windows), alphabets {0,1,3} and "
         "{-2,0,2} (so that x and -x are both explored: negation symmetry, strictly rising/falling windows are all inside the scope), units of "
         "1e-9 and 1e6, recorded streams at N=7..33; machines (MC_Model, ProdM) and the Apalache invariant Ind_MyRsi.",
         "exhaustive model checking of TLA+ definitions against the implementation's complete behaviour tree", "5 C05"),
 "C06": ("model_checking", P1 + "Pearson correlation with the time index (fixed point, 20 decimals), Kendall tau over all pairs (exact), centre of "
         "gravity (exact) on full windows, N=3..5 (quick) / 3..8 (thorough), units of 1e-9 and 1e6, recorded streams at N=9..20 (48).",
         "exhaustive model checking of TLA+ definitions against the implementation's complete behaviour tree", "5 C06"),
 "C11": ("model_checking", P1 + "The difference equations of SuperSmoother, RoofingFilter, LaguerreFilter, LaguerreRSI, CyberCycle, TrendFlex, ReFlex, "
         "EhlersFisherTransform and PFE are folded over the complete history in the specification (coefficients are formulas of N evaluated "
         "with exp/cos/sin/ln series in 20-decimal fixed point; rational-coefficient views exactly) and compared at 1e-9; recorded streams at the "
         "suite's own window lengths (16, 20, 48) validated step by step against the machines, which MC_Model checks against the batch folds; "
         "the same definitions on real runs in units of 2^-70 and 2^60 (exact change of unit, no absolute threshold may take part).",
         "exhaustive model checking of TLA+ difference-equation folds against the implementation's complete behaviour tree", "5 C11"),
 "C13": ("model_checking", P1 + "WelfordRolling mean()/last() (population variance through the square), Drawdown (running maximum of relative declines) "
         "and LnReturn (ln series) against batch definitions over the whole history; integer and decimal positive alphabets; recorded streams "
         "of 1e4..1e6 values (mean() getter included, a large-mean stream, beyond 2^16 values) against exact running sums in the ghost state.",
         "exhaustive model checking of TLA+ definitions against the implementation's complete behaviour tree", "5 C13"),
 "C04": ("model_checking", P1 + "Four invariants on real observations: interval (answer inside [min,max] of the averaged values), constant "
         "window reproduced, monotone (every single-position raise of the history is compared with its sibling), affine (second real run "
         "over a*x+b); plus the Ema recurrence for default and custom alpha (exact rationals, alphabets through 0 and sign changes) and the "
         "Alma Gaussian kernel (fixed point) as definitions. Recorded streams of nine decades of dynamic range (large values, then more than "
         "a window of small ones): the answer, decoded exactly from its bit key, stays inside the interval of the averaged values up to (N+8) ulps.",
         "exhaustive model checking of TLA+ invariants and definitions against the implementation's behaviour trees (one and two runs)", "5 C04"),
 "C12": ("model_checking", "Self-composition as a product of two real behaviour trees: every history x of the scope and its transform a*x+b "
         "(a=2 bit-exact, a=3/2, a=3 b=5/2, b=1e6, a=-1 with Min/Max swapped, units of 2^-120 and 2^100 with exact conversion back) run through the real views; TLC checks the relation table of MC_Rel.tla "
         "(invariant / scaled / affine / negated / 100-Rsi) in every state where the window is not flat.",
         "exhaustive model checking of a relation table over pairs of real runs (self-composition)", "5 C12"),
 "C14": ("model_checking", P1 + "Add/Subtract/Multiply/Divide over all pairs of {Echo, Constant, Sma(2), Roc(1), LnReturn}, GTE/LTE/Tanh/Echo/Constant: "
         "the answer must equal the exact rational combination of the children's definitions at every history (which makes it a function "
         "of the current children values only). Bit-exactness: the children's real answers (stand-alone siblings in the same scope) are decoded "
         "exactly from their bit keys and the combinator must report the correctly rounded IEEE-754 result of that one operation (IEEE.tla); "
         "including the IEEE sign of an exactly-zero result; Tanh must agree bit for bit with the harness reference child.last().map(f64::tanh).",
         "exhaustive model checking of TLA+ definitions against the implementation's complete behaviour tree", "5 C14"),
 "C01": ("model_checking", "Product over the behaviour tree of three REAL objects per (outer, inner) pair of the catalogue: the composite "
         "B<Tap<A<Probe>>> with the harness' transparent observation points between the crate's views, and the decomposition executed literally "
         "(stand-alone A, its Some-answers fed into stand-alone B). TLC checks in every state: bit-identical answers, exactly one update per "
         "observation point per top-level update carrying the raw value (outer before inner), binary nodes report iff both children do, the "
         "moving-average slot of PFE/EFT gets exactly one update per derived value. Outer windows 3 and 1, inner window 2; three-level chains "
         "(the inner view itself a chain).",
         "exhaustive model checking of composition invariants over tapped real view trees", "5 C01"),
 "C03": ("model_checking", "Self-composition: two real runs with different prefixes (lengths 0..12, magnitudes up to 1e6) followed by every common suffix "
         "over the alphabet; TLC checks that after K(view,N) common values the answers agree unless the specification's hold predicate "
         "(MyRSI flat window, Roc zero base) is true.",
         "exhaustive model checking of a two-run product (common suffix, different prefixes)", "5 C03"),
 "C07": ("model_checking", P1 + "Range predicates of every bounded view (and the sibling relation Min <= Sma, Alma, newest <= Max at the same "
         "node of the tree) on integer, decimal and positive alphabets, resolved to the logging resolution 1e-12. PFE's own documented formula "
         "exceeds [-1,1]; that clause is a KNOWN-FINDING (known_findings.json KF1), any other escape is a VIOLATION. Recorded adversarial streams "
         "(shapes; nine decades of dynamic range: large volatile values, then constants / monotone runs of tiny steps) in range mode of "
         "Trace_Stream.tla, with the order clause Min <= Sma, Alma <= Max decided on the exactly decoded answer.",
         "exhaustive model checking of range invariants on real observations", "5 C07"),
 "C08": ("model_checking", P1 + "Readiness table of the specification (Tree.KindReady), never-reverts, finiteness (debug and release builds), and "
         "'delivered nothing => answer unchanged' for every view and two-level chains, on alphabets with zeros, flats and sign changes; "
         "70000-step recorded streams (every answer around steps 2^8, 2^15, 2^16) for readiness that re-closes and non-finite values.",
         "exhaustive model checking of readiness invariants on real observations", "5 C08"),
 "C09": ("model_checking", "(a) TLC evaluates the Jury stability conditions on the specification's coefficient formulas for every window length "
         "1..512 (4096 thorough), one state per N; (b) recorded streams of the real views (Nyquist, step, noise; pairs with a common tail) for "
         "N in 1..256 (512) and chains are validated by Trace_Exp.tla: bounded finite output with a length-independent bound, early values fade to 1e-9 "
         "(random, quiet-after-loud, nine-decade, staircase, flat-then-movement and constant common tails, the tail scaled with N). Two normalised "
         "ratios do not fade on a CONSTANT tail by their own defining formulas (LaguerreRSI; TrendFlex/ReFlex from N = 436): KNOWN-FINDINGS KF2, KF3, "
         "attributed by the specification through the clause name; everything else is a VIOLATION.",
         "model checking of pole criteria over all N on the TLA+ coefficient formulas + trace validation of recorded long streams", "5 C09"),
 "C10": ("model_checking", "Product over PAIRS of histories (x, y) with three look-ups in the real behaviour tree: view(a x + b y) = a view(x) + b view(y) "
         "for four (a,b); homogeneity view(a x) = a view(x) for a in {-2, 3, 0, 1/3} as a two-table product; constant streams reproduced by the low-pass members.",
         "exhaustive model checking of superposition over pairs of real runs", "5 C10"),
 "C15": ("model_checking", P1 + "No observation of an accepted configuration is a panic, in the debug-assertion and the release build: all views, "
         "windows 1..4 exhaustively over {-1,0,1}, windows 5..64 on constant, two-symbol and adversarial recorded streams, 70000-step streams "
         "(every answer around steps 2^8, 2^15, 2^16), two-level chains; model level: no machine panics for N=1..64, Ind_Count (Apalache).",
         "exhaustive model checking of a no-panic invariant on real observations (two build profiles)", "5 C15"),
 "C16": ("exploration", "Trace validation (P3): recorded f64 (2e4 / 1e6 steps) and f32 streams over three decades, and volatile prefixes followed by "
         ">= N+1 identical values, validated event by event by Trace_Stream.tla against the exact definition on the ghost window "
         "(1e-6 x natural scale, 1e-2 in f32, 1e-4 after a flat window). The specification cannot explore rounding; streams are seeded samples.",
         "trace validation of recorded float streams against exact TLA+ definitions", "5 C16"),
 "C17": ("model_checking", "Pipeline P2: TLC generates behaviours of SF.tla / SFTwin.tla (new, update, last, clone, drop on up to 3 slots; for every view "
         "all polling patterns and clone positions over 4 steps, all interleavings to depth 5 on 2 slots, simulation to depth 22), the harness "
         "replays them on the real crate, Trace_SF.tla re-executes each on the abstract state (configuration, history) and requires every "
         "answer to be a function of that pair; every simulated behaviour is executed twice (own thread in generation order; another process, "
         "one shared thread, reverse order) and the two recordings must be identical; same kind with different parameters side by side.",
         "TLC-generated behaviours replayed into the implementation and validated against the TLA+ top-level specification", "5 C17"),
 "C18": ("exploration", "Trace validation (P3): live heap bytes attributable to each view (counting allocator) at L0, 4 L0, 16 L0 updates must not grow "
         "and must stay under the specification's CellBound(view, N) (Trace_Exp.tla); every view over Echo and over inner views that withhold "
         "values at the start or for ever, periodic / constant / zero / rising / falling inputs, N in 1..33 (64).",
         "trace validation of recorded memory measurements against a TLA+ cell bound", "5 C18"),
}

def main():
    checks = []
    for p in props:
        if p not in CLAIMS:
            continue
        lvl, text, tech, ref = CLAIMS[p]
        checks.append({"property_id": p, "quick_cmd": "./check %s --tier quick" % p, "thorough_cmd": "./check %s --tier thorough" % p,
                       "evidence_file": "/verif/evidence/%s.json" % p, "replay_cmd_template": "./check replay {path}",
                       "engine": "tlc-product", "level_claimed": {"category": lvl, "text": text, "design_ref": "DESIGN.md section " + ref},
                       "level_note": TRUSTED, "technique": tech})
    m = {"version": 1, "setup_cmd": "./check setup",
         "hooks": {"guard": "sliding_features_verif",
                   "enable": "no source hooks: the harness observes every view boundary through the public View trait (Tap/Probe wrappers); "
                             "RUSTFLAGS='--cfg sliding_features_verif' is reserved and unused",
                   "baseline_off_cmd": "cd /repo && cargo test --workspace --no-fail-fast --offline",
                   "source_commits": [], "add_only": True},
         "engines": [{"name": "tlc-product", "path": "/verif/spec", "serves_properties": sorted(CLAIMS),
                      "kind_free_text": "explicit TLA+ specification (Defs/DefsR/Tree/Prod/MC_*.tla) checked by TLC against observation tables and "
                                        "traces recorded from the real crate by /verif/harness"}],
         "checks": checks,
         "notes": "Model-based verification with an explicit TLA+ specification; see DESIGN.md. Genuine defects found by the checks were "
                  "repaired in /repo as separate 'fix:' commits and are listed in known_findings.json under 'fixed'; three known findings (KF1 C07 PFE range, "
                  "KF2 C09 LaguerreRSI on a constant tail, KF3 C09 TrendFlex/ReFlex from N=436 on a constant tail) are attributed by the specification "
                  "through clause names. Besides the core scope each claim describes, most checks carry the cross-cutting scopes of DESIGN.md section 5: "
                  "chains over inner views, power-of-two units (2^-70 / 2^60), the f32 instantiation, the release build, dense window-length sweeps, "
                  "signed zeros and streams of up to thirty decades of dynamic range where the statement speaks of ulps.",
         "not_applicable": [{"property_id": p, "reason": "check under construction in this session (planned: DESIGN.md section 5); not claimed yet"}
                            for p in props if p not in CLAIMS]}
    json.dump(m, open(os.path.join(V, "MANIFEST.json"), "w"), indent=1)
    print("MANIFEST: %d claimed, %d not yet" % (len(checks), len(m["not_applicable"])))

if __name__ == "__main__":
    main()
