#!/usr/bin/env python3
"""50-digit references for FxTest.tla (python decimal; cos/sin/tanh by series in Decimal)."""
import json, sys
from decimal import Decimal, getcontext
getcontext().prec = 70
S = 10**20
def limbs(x):
    s = (x > 0) - (x < 0); x = abs(x); d = []
    while x:
        d.append(x % 10000); x //= 10000
    return [s, d]
def fx(v): return limbs(int((v * S).to_integral_value()))
def cos(x):
    t = Decimal(1); s = t; n = 0
    while abs(t) > Decimal(10)**-65:
        n += 2; t = -t * x * x / (n * (n - 1)); s += t
    return s
def sin(x):
    t = x; s = t; n = 1
    while abs(t) > Decimal(10)**-65:
        n += 2; t = -t * x * x / (n * (n - 1)); s += t
    return s
def main(out):
    with open(out, "w") as f:
        xs = [Decimal(k) / 8 for k in range(-80, 41)] + [Decimal("-4.4422") / n for n in range(1, 40)] + \
             [Decimal("-8.88442402435") / n for n in range(1, 30)] + [Decimal("-52.02"), Decimal("-18"), Decimal("12.5")]
        for x in xs:
            f.write(json.dumps({"f": "exp", "x": fx(x), "y": fx(x.exp()), "big": x > 3}) + "\n")
            f.write(json.dumps({"f": "cos", "x": fx(x), "y": fx(cos(x))}) + "\n")
            f.write(json.dumps({"f": "sin", "x": fx(x), "y": fx(sin(x))}) + "\n")
            if abs(x) < 20:
                e = (2 * x).exp()
                f.write(json.dumps({"f": "tanh", "x": fx(x), "y": fx((e - 1) / (e + 1))}) + "\n")
        ps = [Decimal(k) / 16 for k in range(1, 200)] + [Decimal(199), Decimal("0.000001"), Decimal(123456)]
        for x in ps:
            f.write(json.dumps({"f": "ln", "x": fx(x), "y": fx(x.ln())}) + "\n")
            f.write(json.dumps({"f": "sqrt", "x": fx(x), "y": fx(x.sqrt())}) + "\n")
            f.write(json.dumps({"f": "log2", "x": fx(x), "y": fx(x.ln() / Decimal(2).ln())}) + "\n")
if __name__ == "__main__":
    main(sys.argv[1])
