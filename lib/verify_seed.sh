#!/bin/sh
# developer tool: confirm a sub-agent's seeded change in its scratch worktree, store it under /verif/seeded/<name>, remove the worktree
# usage: verify_seed.sh /tmp/sa-C02 C02-hlnorm-tie  "checks that catch it"
wt=$1; name=$2; caught=$3
cd $wt || exit 2
export CARGO_NET_OFFLINE=true
git checkout -q -- img 2>/dev/null
[ -f tests/demo.rs ] || { mkdir -p tests; cp OUT/demo.rs tests/demo.rs; }
git diff --quiet -- src && git apply OUT/patch.diff
lib_ok=$(cargo test --offline --lib 2>&1 | grep -c "test result: ok. 43 passed")
git checkout -q -- img 2>/dev/null
demo_fail=$(cargo test --offline --test demo 2>&1 | grep -c "test result: FAILED")
git apply -R OUT/patch.diff
demo_pass=$(cargo test --offline --test demo 2>&1 | grep -c "test result: ok")
git checkout -q -- img 2>/dev/null
echo "$name: existing-suite-passes-with-change=$lib_ok demo-fails-with-change=$demo_fail demo-passes-without=$demo_pass"
if [ "$lib_ok" = 1 ] && [ "$demo_fail" = 1 ] && [ "$demo_pass" = 1 ]; then
  d=/verif/seeded/$name; mkdir -p $d
  cp OUT/patch.diff $d/patch.diff; cp OUT/demo.rs $d/demo.rs
  python3 - "$d" "$caught" <<'PY'
import json,sys
d,caught=sys.argv[1],sys.argv[2]
m=json.load(open('OUT/meta.json'))
m["confirmed_by_me"]="in a scratch worktree of /repo HEAD: `cargo test --offline --lib` 43 passed with the change; `cargo test --offline --test demo` FAILED with the change and passed with it reverted"
m["caught_by"]=caught
json.dump(m,open(d+'/meta.json','w'),indent=1)
PY
  echo stored $d
fi
cd /; git -C /repo worktree remove --force $wt && echo removed $wt
