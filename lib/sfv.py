#!/usr/bin/env python3
"""Orchestration helpers: build the harness from /repo's working tree, run TLC on the
specification, collect verdict lines, write evidence and replay files.

Nothing here decides a property: verdicts are the VIOL lines printed by TLC while it checks the
TLA+ modules in /verif/spec against the observations dumped by the harness."""
import json, os, re, shutil, subprocess, sys, time, hashlib, threading
from concurrent.futures import ThreadPoolExecutor

VERIF = os.path.dirname(os.path.dirname(os.path.abspath(__file__)))
SPEC = os.path.join(VERIF, "spec")
HARNESS = os.path.join(VERIF, "harness")
WORK = os.path.join(VERIF, "work")
EVID = os.path.join(VERIF, "evidence")
REPLAYS = os.path.join(VERIF, "replays")
TLAJAR = "/opt/veriftools/tla/tla2tools.jar"
TLACP = TLAJAR + ":/opt/veriftools/tla/CommunityModules-deps.jar"


class ToolError(Exception):
    """The machinery itself failed (build, TLC crash, timeout, vacuous run): exit code 2, never a VIOLATION."""


def log(*a):
    print(*a, flush=True)


def sh(cmd, cwd=None, env=None, timeout=None, check=True):
    e = dict(os.environ)
    if env:
        e.update(env)
    try:
        p = subprocess.run(cmd, cwd=cwd, env=e, timeout=timeout, stdout=subprocess.PIPE, stderr=subprocess.STDOUT, text=True)
    except subprocess.TimeoutExpired as ex:
        raise ToolError("timeout after %ss: %s" % (timeout, " ".join(cmd)[:200]))
    if check and p.returncode != 0:
        raise ToolError("command failed (%d): %s\n%s" % (p.returncode, " ".join(cmd)[:300], p.stdout[-4000:]))
    return p


# ------------------------------------------------------------------------------------------------
# builds

_built = {}
_meta_seq = 0
_build_lock = threading.Lock()


def build_harness(profile="dev"):
    """(Re)build the harness against /repo's current working tree; returns the binary path."""
    with _build_lock:
        return _build_harness(profile)


def _build_harness(profile):
    if profile in _built:
        return _built[profile]
    # developer convenience for background sweeps on a frozen copy of the repository (vp run --with-repo):
    # SFV_REPO points the harness' path dependency at that copy.  Registered commands never set it.
    alt = os.environ.get("SFV_REPO")
    if alt and os.path.abspath(alt) != "/repo":
        ct = os.path.join(HARNESS, "Cargo.toml")
        txt = open(ct).read()
        if 'path = "/repo"' in txt:
            open(ct, "w").write(txt.replace('path = "/repo"', 'path = "%s"' % os.path.abspath(alt)))
    cmd = ["cargo", "build", "--offline", "--quiet"] + (["--release"] if profile == "release" else [])
    env = {"CARGO_NET_OFFLINE": "true", "RUSTFLAGS": os.environ.get("SFV_RUSTFLAGS", "")}
    t0 = time.time()
    p = sh(cmd, cwd=HARNESS, env=env, timeout=1800, check=False)
    if p.returncode != 0:
        raise ToolError("harness build failed (%s):\n%s" % (profile, p.stdout[-6000:]))
    path = os.path.join(HARNESS, "target", "release" if profile == "release" else "debug", "sfv-harness")
    _built[profile] = path
    log("[build] harness %s in %.1fs" % (profile, time.time() - t0))
    return path


def ensure_java():
    """Compile the TLC module overrides (Wide, Tally) if missing or stale."""
    for name in ("Wide", "Tally"):
        src = os.path.join(SPEC, name + ".java")
        cls = os.path.join(SPEC, name + ".class")
        if not os.path.exists(cls) or os.path.getmtime(cls) < os.path.getmtime(src):
            sh(["javac", "-cp", TLAJAR, "-d", SPEC, src], timeout=300)


def workdir(prop, clean=True):
    d = os.path.join(WORK, prop)
    if clean and os.path.isdir(d):
        shutil.rmtree(d, ignore_errors=True)
    os.makedirs(d, exist_ok=True)
    return d


# ------------------------------------------------------------------------------------------------
# TLC

VIOL_RE = re.compile(r'^<<"VIOL", (.*)>>\s*$')
KNOWN_RE = re.compile(r'^<<"KNOWN", (.*)>>\s*$')


def _parse_tuple(body):
    return json.loads("[" + body + "]")


# a loaded machine must not turn a long job into a tool error: budgets are generous, the thorough tier's three times more so
TIMEOUT_FACTOR = float(os.environ.get("SFV_TIMEOUT_FACTOR", "2"))

def run_tlc(module, cfg, env, wd, workers=8, timeout=1500, heap="4g", simulate=None, extra=None, dfs=False):
    """Run TLC on spec/<module>.tla with spec/<cfg>; returns dict(out, viol, known, tally, states, distinct)."""
    ensure_java()
    timeout = int(timeout * TIMEOUT_FACTOR)
    global _meta_seq
    with _build_lock:
        _meta_seq += 1
        seq = _meta_seq
    meta = os.path.join(wd, "tlc-meta-%s-%d-%d" % (module, os.getpid(), seq))
    jopts = "-Xss256m -Xmx%s -XX:+UseParallelGC" % heap
    if dfs:
        jopts += " -Dtlc2.tool.queue.IStateQueue=StateDeque"
    cmd = ["java"] + jopts.split() + ["-cp", TLACP, "tlc2.TLC", "-workers", str(workers), "-metadir", meta, "-cleanup",
                                     "-noGenerateSpecTE", "-checkpoint", "0", "-config", cfg]
    if simulate:
        cmd += ["-simulate", simulate]
    if extra:
        cmd += extra
    cmd += [module + ".tla"]
    e = {"JAVA_TOOL_OPTIONS": ""}
    e.update(env)
    t0 = time.time()
    p = sh(["timeout", str(timeout)] + cmd, cwd=SPEC, env=e, timeout=timeout + 60, check=False)
    out = p.stdout
    shutil.rmtree(meta, ignore_errors=True)
    with open(os.path.join(wd, "tlc-%s.log" % module), "a") as f:
        f.write(out)
    if p.returncode == 124:
        raise ToolError("TLC timeout (%ss) on %s" % (timeout, module))
    res = {"out": out, "viol": [], "known": [], "tally": {}, "states": 0, "distinct": 0, "wall": time.time() - t0}
    # TLC's pretty printer breaks a tuple that does not fit in 80 columns over several lines ("<< "VIOL",\n   "C09", ... >>"):
    # such tuples are joined back into one line first, or a long clause name would make a violation invisible
    joined, buf = [], None
    for line in out.splitlines():
        if buf is not None:
            buf += " " + line.strip()
            if line.rstrip().endswith(">>"):
                joined.append(re.sub(r"^<<\s+", "<<", re.sub(r"\s+>>$", ">>", buf))); buf = None
            continue
        if re.match(r'^<< "(VIOL|KNOWN|DRIFT)",\s*$', line):
            buf = line.strip()
            continue
        joined.append(line)
    res["lines"] = joined
    for line in joined:
        m = VIOL_RE.match(line)
        if m:
            res["viol"].append(_parse_tuple(m.group(1)))
            continue
        m = KNOWN_RE.match(line)
        if m:
            res["known"].append(_parse_tuple(m.group(1)))
            continue
        if line.startswith("TALLY "):
            res["tally"] = json.loads(line[6:])
        m = re.match(r"^(\d+) states generated, (\d+) distinct states found", line)
        if m:
            res["states"], res["distinct"] = int(m.group(1)), int(m.group(2))
    if res["tally"].get("viol", 0) > 0 and not res["viol"] and not res["known"]:
        raise ToolError("%s: the specification counted %d violating states but no VIOL line could be read from TLC's output" % (module, res["tally"]["viol"]))
    ok = ("Model checking completed. No error has been found." in out) or (simulate and p.returncode == 0 and "Error:" not in out)
    if not ok:
        ls = [l for l in out.splitlines() if not l.startswith("<<") and not l.startswith("Loading ")]
        first = next((i for i, l in enumerate(ls) if l.startswith("Error")), max(0, len(ls) - 40))
        tail = "\n".join(ls[first:first + 25])
        raise ToolError("TLC did not complete on %s (rc=%d):\n%s" % (module, p.returncode, tail))
    return res


# ------------------------------------------------------------------------------------------------
# harness

def harness(mode, inp, outp, profile="dev", timeout=1800, env=None):
    b = build_harness(profile)
    p = sh([b, mode, inp, outp], timeout=timeout, check=False, env=env)
    if p.returncode != 0:
        raise ToolError("harness %s failed: %s" % (mode, p.stdout[-2000:]))


def decode_hist(idx, length, alphabet):
    a = len(alphabet)
    ds = []
    for _ in range(length):
        ds.append(alphabet[idx % a])
        idx //= a
    return ds[::-1]


def obs_to_float(o):
    """Only for human-readable replay files / logs; never used for a verdict."""
    if not isinstance(o, list) or not o:
        return o
    if o[0] == "s":
        v = 0
        for l in reversed(o[2]):
            v = v * 10000 + l
        return (-1 if o[1] else 1) * v / 1e12
    return o[0]


# ------------------------------------------------------------------------------------------------
# known findings

def load_known():
    p = os.path.join(VERIF, "known_findings.json")
    if not os.path.exists(p):
        return []
    return json.load(open(p)).get("known", [])


def match_known(known, prop, view, clause, cfg=None):
    for k in known:
        if k.get("property") != prop or k.get("view") != view.split("(")[0] or k.get("clause") != clause:
            continue
        cond = k.get("cfg_where")
        if cond and cfg is not None:
            if not all(cfg.get(f) == v for f, v in cond.items()):
                continue
        return k
    return None


# ------------------------------------------------------------------------------------------------
# a property run: collects job results, writes evidence, forms the exit code

class Run:
    def __init__(self, prop, tier, level):
        self.lock = threading.RLock()
        self.pending = []
        self.prop, self.tier, self.level = prop, tier, level
        if tier == "thorough":
            global TIMEOUT_FACTOR
            TIMEOUT_FACTOR = float(os.environ.get("SFV_TIMEOUT_FACTOR", "6"))
        self.seed = int(os.environ.get("VERIF_SEED", "0") or 0)
        self.t0 = time.time()
        self.wd = workdir(prop)
        if os.path.isdir(REPLAYS):
            for f in os.listdir(REPLAYS):
                if f.startswith(prop + "-"):
                    os.remove(os.path.join(REPLAYS, f))
        self.states = 0
        self.transitions = 0
        self.traces = 0
        self.evaluations = 0
        self.nontrivial = 0
        self.samples = []
        self.jobs = []
        self.violations = []   # dicts
        self.known_hits = {}
        self.notes = []
        self.assumptions = []
        self.known = load_known()
        self.exhaustive = True

    def add_violation(self, view, clause, cfg, detail, replay_obj):
        k = match_known(self.known, self.prop, view, clause, cfg)
        if k is not None:
            key = (view, clause, k.get("id", ""))
            self.known_hits.setdefault(key, {"k": k, "n": 0, "example": detail})
            self.known_hits[key]["n"] += 1
            return
        self.violations.append({"view": view, "clause": clause, "cfg": cfg, "detail": detail, "replay": replay_obj})

    def submit(self, fn, *a, **kw):
        """queue a job; jobs run concurrently (a few TLC processes side by side) when finish() or drain() is called"""
        self.pending.append((fn, a, kw))

    def drain(self, parallel=3):
        jobs, self.pending = self.pending, []
        if not jobs:
            return
        errs = []
        def one(j):
            try:
                j[0](self, *j[1], **j[2])
            except ToolError as e:
                errs.append(e)
        with ThreadPoolExecutor(max_workers=parallel) as ex:
            list(ex.map(one, jobs))
        if errs:
            raise errs[0]

    def finish(self, rule, trusted=None):
        self.drain()
        self.jobs.sort(key=lambda j: j["name"])
        os.makedirs(EVID, exist_ok=True)
        rc = 0
        for (view, clause, _), h in sorted(self.known_hits.items()):
            log("KNOWN-FINDING: property=%s %s %s: %s (%d observations; e.g. %s)" % (
                self.prop, view, clause, h["k"].get("what", ""), h["n"], json.dumps(h["example"])[:200]))
        if self.violations:
            os.makedirs(REPLAYS, exist_ok=True)
            # one replay file per (view, clause), the shortest history first
            seen = {}
            for v in self.violations:
                seen.setdefault((v["view"], v["clause"]), []).append(v)
            n = 0
            for (view, clause), vs in sorted(seen.items()):
                vs.sort(key=lambda v: len(json.dumps(v["replay"])))
                n += 1
                path = os.path.join(REPLAYS, "%s-%d-%s-%s.json" % (self.prop, n, re.sub(r"[^A-Za-z0-9()+,]+", "_", view), re.sub(r"[^A-Za-z0-9]+", "_", clause)))
                obj = dict(vs[0]["replay"])
                obj.update({"property": self.prop, "view": view, "clause": clause, "detail": vs[0]["detail"],
                            "violating_observations_in_this_class": len(vs),
                            "how_to_replay": "./check replay %s" % path})
                json.dump(obj, open(path, "w"), indent=1)
                log("VIOLATION property=%s replay=%s" % (self.prop, path))
                log("   %s / %s: %d violating observations, e.g. %s" % (view, clause, len(vs), json.dumps(vs[0]["detail"])[:300]))
            rc = 1
        cov = {
            "states": self.states, "transitions": self.transitions,
            "traces_validated_against_impl": self.traces,
            "evaluations": self.evaluations, "distinct_nontrivial": self.nontrivial,
            "rule": rule, "samples": self.samples[:12] or ["(none)"],
            "exhaustive": self.exhaustive, "jobs": self.jobs,
            "checker_cmd": "tlc (TLC2 2026.09.04) on /verif/spec, see jobs[].module",
            "trusted_base": trusted or ["TLC", "Wide/Fx TLA+ libraries (self-tested)", "harness value encoding", "rustc"],
            "known_findings_hit": [{"view": v, "clause": c, "count": h["n"]} for (v, c, _), h in sorted(self.known_hits.items())],
            "notes": self.notes,
        }
        ev = {"property_id": self.prop, "tier": self.tier, "seed": self.seed, "level": self.level, "coverage": cov,
              "assumptions": self.assumptions, "wall_s": round(time.time() - self.t0, 2), "violations": len(self.violations)}
        json.dump(ev, open(os.path.join(EVID, self.prop + ".json"), "w"), indent=1)
        log("[%s] tier=%s states=%d traces=%d nontrivial=%d violations=%d known=%d wall=%.0fs" % (
            self.prop, self.tier, self.states, self.traces, self.nontrivial, len(self.violations),
            sum(h["n"] for h in self.known_hits.values()), time.time() - self.t0))
        return rc


def kind_of(cfg):
    """Human label of a configuration: outermost kind (with /inner for chains)."""
    k = cfg.get("k", "?")
    return k


def p1_job(run, name, module, scope, profile="dev", workers=5, timeout=1500, nontrivial_keys=("def.q", "def.f", "def.f2", "def.sq", "def.hold", "def.n"),
           view_label=None, extra_env=None, scope2=None, cfgfile="MC.cfg", cfg_fraction=1):
    """Pipeline P1: dump the implementation's behaviour tree for `scope`, model-check `module` against it."""
    wd = run.wd
    sp = os.path.join(wd, name + ".scope.json")
    tb = os.path.join(wd, name + ".table.ndjson")
    json.dump(scope, open(sp, "w"))
    t0 = time.time()
    harness("table", sp, tb, profile)
    th = time.time() - t0
    env = {"SCOPE": sp, "TABLE": tb}
    if scope2 is not None:
        # second real run of the same behaviour tree over the transformed alphabet (relational properties)
        sp2 = os.path.join(wd, name + ".scope2.json")
        tb2 = os.path.join(wd, name + ".table2.ndjson")
        json.dump(scope2, open(sp2, "w"))
        harness("table", sp2, tb2, profile)
        env["TABLE2"] = tb2
    if extra_env:
        env.update(extra_env)
    big = os.path.getsize(tb) + (os.path.getsize(env["TABLE2"]) if "TABLE2" in env else 0)
    res = run_tlc(module, cfgfile, env, wd, workers=workers, timeout=timeout, heap="4g" if big < 60_000_000 else "14g")
    a = len(scope["alphabet"])
    ncells = (len(scope["cfgs"]) // cfg_fraction) * sum(a ** l for l in range(scope["maxlen"] + 1))
    if res["distinct"] != ncells:
        raise ToolError("%s: TLC explored %d states, the scope has %d cells" % (name, res["distinct"], ncells))
    tally = res["tally"]
    if tally.get("states", 0) != res["distinct"]:
        raise ToolError("%s: invariant evaluated in %s states, expected %d (vacuous run?)" % (name, tally.get("states"), res["distinct"]))
    with run.lock:
        run.states += res["distinct"]
        run.transitions += res["states"]
        run.traces += len(scope["cfgs"]) * a ** scope["maxlen"]
        run.evaluations += res["distinct"]
        if nontrivial_keys is None:
            nt = sum(v for k, v in tally.items() if k.startswith("range."))
        else:
            nt = sum(tally.get(k, 0) for k in nontrivial_keys)
        run.nontrivial += nt
        run.jobs.append({"name": name, "pipeline": "P1", "module": module, "profile": profile, "cfgs": len(scope["cfgs"]),
                         "alphabet": scope["alphabet"], "unit": scope.get("unit", 1), "maxlen": scope["maxlen"],
                         "states": res["distinct"], "tally": tally, "harness_s": round(th, 2), "tlc_s": round(res["wall"], 2)})
        for v in res["viol"]:
            prop, clause, c, ln, idx = v[0], v[1], v[2], v[3], v[4]
            cfg = scope["cfgs"][c - 1]
            hist = decode_hist(idx, ln, scope["alphabet"])
            label = view_label(cfg) if view_label else kind_of(cfg)
            detail = {"cfg": cfg, "inputs": hist, "unit": scope.get("unit", 1), "extra": v[5:]}
            replay = {"kind": "p1", "module": module, "cfg": cfg, "inputs": hist, "unit": scope.get("unit", 1),
                      "float": scope.get("float", "f64"), "profile": profile, "env": extra_env or {},
                      "scope_rest": {k: v for k, v in scope.items() if k not in ("cfgs", "alphabet", "maxlen")}}
            if scope2 is not None:
                replay["scope2_rest"] = {k: v for k, v in scope2.items() if k not in ("cfgs", "alphabet", "maxlen")}
                replay["cfg2"] = scope2["cfgs"][c - 1]
                replay["inputs2"] = decode_hist(idx, ln, scope2["alphabet"])
                replay["alphabet"] = scope["alphabet"]
                replay["alphabet2"] = scope2["alphabet"]
            run.add_violation(label, clause, cfg, detail, replay)
        if len(run.samples) < 12 and scope["cfgs"]:
            run.samples.append({"job": name, "cfg": scope["cfgs"][0], "example_history": decode_hist(a ** scope["maxlen"] // 3, scope["maxlen"], scope["alphabet"]),
                                "unit": scope.get("unit", 1)})
        if tally.get("viol", 0) > len(res["viol"]):
            run.notes.append("%s: %d violating states in total (printing capped)" % (name, tally.get("viol", 0)))
    return res


def pair_job(run, name, scope, workers=8, timeout=1500, profile="dev"):
    """C10: pairs of histories over scope['pair_alphabet'], table over scope['alphabet'] (module MC_C10)."""
    wd = run.wd
    sp = os.path.join(wd, name + ".scope.json")
    tb = os.path.join(wd, name + ".table.ndjson")
    json.dump(scope, open(sp, "w"))
    harness("table", sp, tb, profile)
    res = run_tlc("MC_C10", "MC.cfg", {"SCOPE": sp, "TABLE": tb}, wd, workers=workers, timeout=timeout)
    pa = len(scope["pair_alphabet"]) ** 2
    want = len(scope["cfgs"]) * sum(pa ** l for l in range(scope["maxlen"] + 1))
    if res["distinct"] != want or res["tally"].get("states") != want:
        raise ToolError("%s: explored %d states, expected %d" % (name, res["distinct"], want))
    run.states += res["distinct"]; run.transitions += res["states"]
    run.traces += len(scope["cfgs"]) * len(scope["alphabet"]) ** scope["maxlen"]
    run.evaluations += res["distinct"] * len(scope["combos"])
    run.nontrivial += res["tally"].get("superposition", 0)
    run.jobs.append({"name": name, "pipeline": "P1-pairs", "module": "MC_C10", "cfgs": len(scope["cfgs"]), "table_alphabet": scope["alphabet"],
                     "pair_alphabet": scope["pair_alphabet"], "combos": scope["combos"], "maxlen": scope["maxlen"],
                     "states": res["distinct"], "tally": res["tally"], "tlc_s": round(res["wall"], 2)})
    B = scope["alphabet"]
    for v in res["viol"]:
        _, clause, c, ln, ix, iy, k = v
        cfg = scope["cfgs"][c - 1]
        x = decode_hist(ix, ln, B); y = decode_hist(iy, ln, B)
        ab = scope["combos"][k - 1] if k else None
        detail = {"cfg": cfg, "x": x, "y": y, "combo": ab, "unit": scope.get("unit", 1)}
        replay = {"kind": "pairs", "cfg": cfg, "x": x, "y": y, "combo": ab, "scope": {k2: v2 for k2, v2 in scope.items() if k2 != "cfgs"}}
        run.add_violation(kind_of(cfg), clause, cfg, detail, replay)
    if len(run.samples) < 12:
        run.samples.append({"job": name, "cfg": scope["cfgs"][0], "x": [1, 0, -1][:scope["maxlen"]], "y": [0, 1, 1][:scope["maxlen"]], "combo": scope["combos"][0]})
    return res


PROG_RE = re.compile(r'^<<"PROG", (".*")>>\s*$')


def p2_job(run, name, scope, prop, num=1000, exhaustive=False, profile="dev", workers=4, timeout=1200, gen="SF", twice=False):
    """Pipeline P2: TLC generates behaviours of SF.tla, the harness replays them on the real crate,
    Trace_SF.tla validates the recorded answers.  twice: every program is executed in two processes - on a thread of its own in
    generation order, and on one shared thread in reverse order; Trace_SF requires the same answers (`res2`), i.e. nothing that
    other instances, earlier programs or the thread did may show."""
    wd = run.wd
    sp = os.path.join(wd, name + ".scope.json")
    json.dump(scope, open(sp, "w"))
    sim = None if exhaustive else "num=%d" % num
    extra = None if exhaustive else ["-depth", str(scope["depth"] + 1), "-seed", str(run.seed + 7)]
    genmod = gen
    gen = run_tlc(genmod, genmod + ".cfg", {"SCOPE": sp}, wd, workers=(workers if exhaustive else 1), timeout=timeout, simulate=sim, extra=extra)
    progs = []
    seen = set()
    for line in gen["out"].splitlines():
        m = PROG_RE.match(line)
        if m:
            js = json.loads(m.group(1))
            if js not in seen:
                seen.add(js)
                progs.append(json.loads(js))
    if not progs:
        raise ToolError("%s: TLC generated no behaviour" % name)
    inp = os.path.join(wd, name + ".progs.ndjson")
    outp = os.path.join(wd, name + ".trace.ndjson")
    with open(inp, "w") as f:
        for i, pr in enumerate(progs):
            f.write(json.dumps({"id": i + 1, "unit": scope.get("unit", 1), "slots": scope["slots"], "float": scope.get("float", "f64"), "prog": pr}) + "\n")
    if twice:
        out1, out2, inp2 = outp + ".1", outp + ".2", inp + ".rev"
        harness("run", inp, out1, profile, env={"SFV_ISOLATE": "1"})
        lines = open(inp).read().splitlines()
        open(inp2, "w").write("\n".join(reversed(lines)) + "\n")
        harness("run", inp2, out2, profile, env={"SFV_ISOLATE": "0"})
        second = {}
        for ln in open(out2):
            e = json.loads(ln)
            second[e["id"]] = e["res"]
        with open(outp, "w") as f:
            for ln in open(out1):
                e = json.loads(ln)
                e["res2"] = second[e["id"]]
                f.write(json.dumps(e) + "\n")
    else:
        harness("run", inp, outp, profile)
    res = run_tlc("Trace_SF", "Trace.cfg", {"TRACE": outp, "PROP": prop}, wd, workers=1, timeout=timeout, dfs=True)
    if res["tally"].get("programs") != len(progs):
        raise ToolError("%s: %s programs judged, %d recorded" % (name, res["tally"].get("programs"), len(progs)))
    answers = sum(int(k.split(".")[1]) * v for k, v in res["tally"].items() if k.startswith("answers."))
    with run.lock:
        run.states += res["distinct"] + gen["distinct"]
        run.transitions += res["states"] + gen["states"]
        run.traces += len(progs)
        run.evaluations += len(progs)
        run.nontrivial += sum(v for k, v in res["tally"].items() if k.startswith("answers.") and int(k.split(".")[1]) >= 2)
        run.exhaustive = run.exhaustive and exhaustive
        run.jobs.append({"name": name, "pipeline": "P2", "generator": genmod + ".tla " + ("exhaustive depth %d" % scope["depth"] if exhaustive else "-simulate num=%d -depth %d" % (num, scope["depth"])),
                         "validator": "Trace_SF.tla", "profile": profile, "programs": len(progs), "operations": sum(len(p) for p in progs),
                         "answers_judged": answers, "cfgs": len(scope["cfgs"]), "inputs": scope["inputs"], "tlc_s": round(res["wall"] + gen["wall"], 2)})
        for v in res["viol"]:
            _, clause, line = v
            pr = progs[line - 1]
            kinds = sorted({op[2].get("k", "?") for op in pr if op[0] == "new"})
            detail = {"program": pr, "unit": scope.get("unit", 1)}
            replay = {"kind": "p2", "prog": pr, "unit": scope.get("unit", 1), "slots": scope["slots"], "profile": profile, "prop": prop}
            if clause.startswith("answer-depends-on-other"):
                # the answers of this program differ between two executions of the whole set: the set is the context
                replay.update(twice=True, index=line, all_progs=progs, float=scope.get("float", "f64"))
            run.add_violation("+".join(kinds), clause, None, detail, replay)
        if len(run.samples) < 12:
            run.samples.append({"job": name, "program": progs[len(progs) // 2]})
    return res


def p3_stream_job(run, name, prop, streams, profile="dev", timeout=2400, heap="6g"):
    """Pipeline P3: record the real view on the given input streams, validate the trace with Trace_Stream.tla.
    streams: dicts with cfg, unit, mode, eps, float, xs (ints), k (sampling period of the recorded answers)."""
    wd = run.wd
    inp = os.path.join(wd, name + ".progs.ndjson")
    outp = os.path.join(wd, name + ".rec.ndjson")
    trace = os.path.join(wd, name + ".trace.ndjson")
    with open(inp, "w") as f:
        for i, st in enumerate(streams):
            k = st.get("k", 1)
            op = ["us", 0, st["xs"]] if k == 1 else ["uss", 0, st["xs"], k]
            if st.get("dense"):
                op = ["usr", 0, st["xs"], k, st["dense"]]       # every k-th answer plus every answer inside the dense step ranges
            if st.get("extras"):
                op = ["ussx", 0, st["xs"], k]                   # ... with the mean() getter next to every kept answer
            f.write(json.dumps({"id": i + 1, "unit": st["unit"], "float": st.get("float", "f64"), "slots": 1, "prog": [["new", 0, st["cfg"]], op]}) + "\n")
    harness("run", inp, outp, profile)
    nlines = 0
    kept = []
    with open(trace, "w") as f:
        for st, line in zip(streams, open(outp)):
            r = json.loads(line)
            if r["res"][0] != "ok":
                if r["res"][0] == "reject":
                    continue                      # a configuration its constructor refuses has no behaviour to judge
                raise ToolError("%s: could not build %s: %s" % (name, st["cfg"], r["res"][0]))
            kept.append(st)
            obs = r["res"][1]
            k = st.get("k", 1)
            hdr = {"cfg": st["cfg"], "unit": st["unit"], "mode": st["mode"], "eps": st["eps"], "float": st.get("float", "f64")}
            if "epsp" in st:
                hdr["epsp"] = st["epsp"]
            if st.get("pairs") and st["mode"] != "alive":
                hdr["pairs"] = True               # every input is [m, e]: the value (m / unit) * 2^e (mode alive does not re-read the inputs)
            if any(abs(v) >= 2 ** 31 for v in st["eps"]):
                raise ToolError("%s: eps %s does not fit TLC's 32-bit integers (use epsp)" % (name, st["eps"]))
            f.write(json.dumps(hdr) + "\n")
            nlines += 1
            slim = st["mode"] == "alive"          # this mode judges the answers alone: the inputs are not written out again
            if st.get("dense"):
                prev = 0
                for step, o in obs:
                    f.write(json.dumps({"xs": [1] if slim else st["xs"][prev:step], "o": o}) + "\n")
                    prev = step; nlines += 1
            elif st.get("extras"):
                for j, (o, ex) in enumerate(obs):
                    ln = {"xs": st["xs"][j * k:(j + 1) * k], "o": o}
                    if isinstance(ex, dict) and "mean" in ex:
                        ln["m"] = ex["mean"]
                    f.write(json.dumps(ln) + "\n")
                    nlines += 1
            else:
                for j, o in enumerate(obs):
                    f.write(json.dumps({"xs": [1] if slim else st["xs"][j * k:(j + 1) * k], "o": o}) + "\n")
                    nlines += 1
    streams = kept
    res = run_tlc("Trace_Stream", "TraceS.cfg", {"TRACE": trace, "PROP": prop}, wd, workers=1, timeout=timeout, heap=heap, dfs=True)
    events = res["tally"].get("events", 0)
    if events != nlines - len(streams):
        raise ToolError("%s: %d events judged, %d recorded" % (name, events, nlines - len(streams)))
    with run.lock:
        run.states += res["distinct"]
        run.transitions += res["states"]
        run.traces += len(streams)
        run.evaluations += events
        run.nontrivial += sum(v for k2, v in res["tally"].items() if (k2.startswith("def.") and k2 not in ("def.any",)) or k2.startswith("range.") or k2.startswith("interval.") or k2 in ("nopanic", "alive"))
        run.exhaustive = False
        run.jobs.append({"name": name, "pipeline": "P3", "validator": "Trace_Stream.tla", "profile": profile, "streams": len(streams),
                         "inputs": sum(len(st["xs"]) for st in streams), "events_judged": events, "tally": {k2: v for k2, v in res["tally"].items() if not k2.startswith("print.")},
                         "tlc_s": round(res["wall"], 2)})
        for v in res["viol"]:
            _, clause, sid, line, cnt = v
            st = streams[sid - 1]
            detail = {"cfg": st["cfg"], "unit": st["unit"], "float": st.get("float", "f64"), "inputs_consumed": cnt, "eps": st["eps"],
                      "last_inputs": st["xs"][max(0, cnt - 12):cnt]}
            replay = {"kind": "p3", "prop": prop, "stream": {k2: v2 for k2, v2 in st.items() if k2 != "xs"}, "xs": st["xs"][:cnt], "profile": profile}
            run.add_violation(kind_of(st["cfg"]) + ("/f32" if st.get("float") == "f32" else ""), clause, st["cfg"], detail, replay)
        if len(run.samples) < 12 and streams:
            st = streams[0]
            run.samples.append({"job": name, "cfg": st["cfg"], "unit": st["unit"], "float": st.get("float", "f64"), "first_inputs": st["xs"][:16], "length": len(st["xs"])})
    return res


def exp_job(run, name, prop, lines, nontrivial_key, timeout=1200, describe=None):
    """Pipeline P3, one experiment per trace line, judged by Trace_Exp.tla.  `lines` are the recorded experiments."""
    wd = run.wd
    trace = os.path.join(wd, name + ".trace.ndjson")
    with open(trace, "w") as f:
        for ln in lines:
            f.write(json.dumps(ln) + "\n")
    res = run_tlc("Trace_Exp", "Trace.cfg", {"TRACE": trace, "PROP": prop}, wd, workers=1, timeout=timeout, dfs=True)
    if res["tally"].get("lines") != len(lines):
        raise ToolError("%s: %s lines judged, %d recorded" % (name, res["tally"].get("lines"), len(lines)))
    with run.lock:
        run.states += res["distinct"]; run.transitions += res["states"]
        run.traces += len(lines); run.evaluations += len(lines)
        run.nontrivial += res["tally"].get(nontrivial_key, 0)
        run.exhaustive = False
        run.jobs.append({"name": name, "pipeline": "P3", "validator": "Trace_Exp.tla", "experiments": len(lines),
                         "tally": {k: v for k, v in res["tally"].items() if not k.startswith("print.")}, "tlc_s": round(res["wall"], 2)})
        for v in res["viol"]:
            _, clause, line = v
            e = lines[line - 1]
            detail = describe(e) if describe else {"cfg": e.get("cfg")}
            replay = {"kind": "exp", "prop": prop, "experiment": {k: v2 for k, v2 in e.items() if k not in ("oa", "ob")}}
            run.add_violation(kind_of(e["cfg"]), clause, e["cfg"], detail, replay)
        if len(run.samples) < 12 and lines:
            run.samples.append({"job": name, "experiment": {k: (v2 if not isinstance(v2, list) or len(v2) < 12 else v2[:8] + ["..."]) for k, v2 in lines[0].items() if k not in ("oa", "ob")}})
    return res


def record(run, name, progs, profile="dev", mode="run"):
    """run programs / memory experiments on the real crate; returns the parsed output lines"""
    wd = run.wd
    inp = os.path.join(wd, name + ".in.ndjson")
    outp = os.path.join(wd, name + ".out.ndjson")
    with open(inp, "w") as f:
        for p in progs:
            f.write(json.dumps(p) + "\n")
    harness(mode, inp, outp, profile)
    return [json.loads(l) for l in open(outp)]


DRIFT_RE = re.compile(r'^<<"DRIFT", (.*)>>\s*$')


def model_job(run, name, scope, workers=8, timeout=1500):
    """Invariant family 1: the implementation-shaped machines against the definitions (MC_Model.tla; no implementation
    involved).  A disagreement means the SPECIFICATION is inconsistent with itself: a tool error, never a VIOLATION."""
    wd = run.wd
    sp = os.path.join(wd, name + ".scope.json")
    json.dump(scope, open(sp, "w"))
    res = run_tlc("MC_Model", "MC.cfg", {"SCOPE": sp}, wd, workers=workers, timeout=timeout)
    a = len(scope["alphabet"])
    want = len(scope["cfgs"]) * sum(a ** l for l in range(scope["maxlen"] + 1))
    if res["distinct"] != want or res["tally"].get("states") != want:
        raise ToolError("%s: explored %d model states, expected %d" % (name, res["distinct"], want))
    if res["viol"]:
        v = res["viol"][0]
        raise ToolError("%s: the specification is inconsistent with itself: %s for %s after %s" % (
            name, v[1], json.dumps(scope["cfgs"][v[2] - 1]), decode_hist(v[4], v[3], scope["alphabet"])))
    with run.lock:
        run.states += res["distinct"]; run.transitions += res["states"]
        run.jobs.append({"name": name, "pipeline": "model (family 1: machine = definition, no machine panic, cells <= bound)", "module": "MC_Model",
                         "cfgs": len(scope["cfgs"]), "alphabet": scope["alphabet"], "maxlen": scope["maxlen"], "states": res["distinct"],
                         "tally": res["tally"], "tlc_s": round(res["wall"], 2)})
    return res


def conf_job(run, name, scope, profile="dev", workers=5, timeout=1500):
    """Invariant family 3: real observations against the machine (ProdM.tla).  Disagreement is DRIFT, reported and
    recorded in the evidence; it is not a violation of any property (DESIGN.md section 4)."""
    wd = run.wd
    sp = os.path.join(wd, name + ".scope.json"); tb = os.path.join(wd, name + ".table.ndjson")
    json.dump(scope, open(sp, "w"))
    harness("table", sp, tb, profile)
    res = run_tlc("ProdM", "MC.cfg", {"SCOPE": sp, "TABLE": tb}, wd, workers=workers, timeout=timeout)
    drift = [json.loads("[" + m.group(1) + "]") for m in (DRIFT_RE.match(l) for l in res["lines"]) if m]
    with run.lock:
        run.states += res["distinct"]; run.transitions += res["states"]
        kinds = sorted({kind_of(scope["cfgs"][d[0] - 1]) for d in drift})
        run.jobs.append({"name": name, "pipeline": "P1 conformance (family 3: observation = machine)", "module": "ProdM", "profile": profile,
                         "cfgs": len(scope["cfgs"]), "states": res["distinct"], "conforms": res["tally"].get("conforms", 0),
                         "drift_states": res["tally"].get("drift", 0), "drift_views": kinds, "tlc_s": round(res["wall"], 2)})
        for k in kinds:
            ex = next(d for d in drift if kind_of(scope["cfgs"][d[0] - 1]) == k)
            log("DRIFT view=%s: the code's observable behaviour differs from the implementation-shaped machine (e.g. %s after %s); "
                "model-level results are not transferable for this view" % (k, json.dumps(scope["cfgs"][ex[0] - 1]), decode_hist(ex[2], ex[1], scope["alphabet"])))
            run.notes.append("DRIFT %s" % k)
    return res


def apalache_job(run, module, timeout=900):
    """Apalache layer (model level only): inductive invariant of an integer restatement of a machine, for every integer
    input and every stream length (fixed N in a small range).  Base case and inductive step must both report NoError."""
    wd = os.path.join(run.wd, "apalache-" + module)
    os.makedirs(wd, exist_ok=True)
    src = os.path.join(SPEC, "apalache", module + ".tla")
    t0 = time.time()
    outs = []
    for mode in (["--init=Init", "--length=0"], ["--init=IndInit", "--length=1"]):
        p = sh(["timeout", str(timeout), "apalache-mc", "check", "--cinit=ConstInit", "--inv=IndInv", "--out-dir=" + os.path.join(wd, "out"),
                "--write-intermediate=false"] + mode + [src], cwd=wd, timeout=timeout + 30, check=False)
        outs.append(p.stdout)
        if "The outcome is: NoError" not in p.stdout:
            tail = "\n".join(p.stdout.splitlines()[-15:])
            raise ToolError("apalache %s %s: inductive invariant not established (model level):\n%s" % (module, " ".join(mode), tail))
    shutil.rmtree(wd, ignore_errors=True)
    with run.lock:
        run.jobs.append({"name": "apalache-" + module, "pipeline": "Apalache inductive invariant (model level, all integers, all stream lengths)",
                         "module": "apalache/" + module + ".tla", "obligations": 2, "discharged": 2, "wall_s": round(time.time() - t0, 2)})
    return True
