//! Conformance harness binding the TLA+ specification in /verif/spec to the real crate.
//!
//! The harness never decides anything: it builds view trees from JSON descriptors, drives them
//! with the requested inputs, and encodes what it observes (section 3.3 of DESIGN.md).  All
//! verdicts are formed by TLC on the emitted files.
//!
//! Modes
//!   table <scope.json> <out.ndjson>   complete behaviour tree of a scope (pipeline P1)
//!   run   <in.ndjson>  <out.ndjson>   programs over instance slots (pipelines P2/P3)
//!   mem   <in.ndjson>  <out.ndjson>   live heap bytes owned by a view at given stream positions

use num::Float;
use serde_json::{json, Value};
use sliding_features::pure_functions::*;
use sliding_features::rolling::*;
use sliding_features::sliding_windows::*;
use sliding_features::View;
use std::alloc::{GlobalAlloc, Layout, System};
use std::cell::RefCell;
use std::fmt::Debug;
use std::io::{BufRead, BufReader, BufWriter, Write};
use std::panic::{catch_unwind, AssertUnwindSafe};
use std::sync::atomic::{AtomicIsize, Ordering};

// ---------------------------------------------------------------------------------------------
// counting allocator (C18)

struct Counting;
static LIVE: AtomicIsize = AtomicIsize::new(0);
unsafe impl GlobalAlloc for Counting {
    unsafe fn alloc(&self, l: Layout) -> *mut u8 {
        LIVE.fetch_add(l.size() as isize, Ordering::Relaxed);
        System.alloc(l)
    }
    unsafe fn dealloc(&self, p: *mut u8, l: Layout) {
        LIVE.fetch_sub(l.size() as isize, Ordering::Relaxed);
        System.dealloc(p, l)
    }
    unsafe fn realloc(&self, p: *mut u8, l: Layout, new: usize) -> *mut u8 {
        LIVE.fetch_add(new as isize - l.size() as isize, Ordering::Relaxed);
        System.realloc(p, l, new)
    }
}
#[global_allocator]
static A: Counting = Counting;

// ---------------------------------------------------------------------------------------------
// float plumbing

pub trait FloatT: Float + Debug + 'static {
    fn to64(self) -> f64;
    fn from_ratio(num: i64, den: i64) -> Self;
}
/// the input symbol that stands for the IEEE value -0.0 (the specification reads it as the number 0)
const NEG_ZERO: i64 = 2147483647;

impl FloatT for f64 {
    fn to64(self) -> f64 {
        self
    }
    fn from_ratio(num: i64, den: i64) -> f64 {
        if num == NEG_ZERO {
            return -0.0;
        }
        num as f64 / den as f64
    }
}
impl FloatT for f32 {
    fn to64(self) -> f64 {
        self as f64
    }
    fn from_ratio(num: i64, den: i64) -> f32 {
        if num == NEG_ZERO {
            return -0.0;
        }
        num as f32 / den as f32
    }
}

/// order preserving map of the IEEE-754 bit pattern to an unsigned 64-bit key
fn key(v: f64) -> u64 {
    let b = v.to_bits();
    if b >> 63 == 1 {
        !b
    } else {
        b | (1u64 << 63)
    }
}

/// decimal digits (most significant first) -> little endian base 10^4 limbs, canonical (no high zeros)
fn limbs(digits: &str) -> Vec<u32> {
    let ds: Vec<u8> = digits.bytes().filter(|c| c.is_ascii_digit()).collect();
    let mut out = Vec::new();
    let mut end = ds.len();
    while end > 0 {
        let start = end.saturating_sub(4);
        let mut v = 0u32;
        for &c in &ds[start..end] {
            v = v * 10 + (c - b'0') as u32;
        }
        out.push(v);
        end = start;
    }
    while let Some(&0) = out.last() {
        out.pop();
    }
    out
}

/// One observation.  ["n"] | ["nan"] | ["inf",neg] | ["s",neg,[limbs of round(|v|*1e12)],exact,[k2,k1,k0]]
fn enc64(v: f64) -> Value {
    if v.is_nan() {
        return json!(["nan"]);
    }
    if v.is_infinite() {
        return json!(["inf", (v < 0.0) as u8]);
    }
    let neg = v.is_sign_negative() as u8; // -0.0 keeps its sign bit here; value-level relations ignore it
    let s = format!("{:.12}", v.abs());
    let l = limbs(&s);
    let exact = ((v * 4096.0).fract() == 0.0 && (v * 4096.0).is_finite()) as u8;
    let k = key(v);
    json!(["s", neg, l, exact, [(k >> 44) as u32, ((k >> 22) & 0x3f_ffff) as u32, (k & 0x3f_ffff) as u32]])
}
thread_local! {
    /// answers are reported in units of 2^-OUT_POW2 (an exact change of units; 0 = as they are)
    static OUT_POW2: std::cell::Cell<i32> = const { std::cell::Cell::new(0) };
}
fn enc<T: FloatT>(v: Option<T>) -> Value {
    match v {
        None => json!(["n"]),
        Some(x) => {
            let k = OUT_POW2.with(|c| c.get());
            if k == 0 {
                enc64(x.to64())
            } else {
                enc64(x.to64() * 2.0f64.powi(k))
            }
        }
    }
}

// ---------------------------------------------------------------------------------------------
// dynamic views

pub trait DynView<T: FloatT>: 'static {
    fn upd(&mut self, v: T);
    fn lst(&self) -> Option<T>;
    fn bclone(&self) -> Option<Box<dyn DynView<T>>>;
    fn extras(&self) -> Vec<(&'static str, T)> {
        vec![]
    }
}
pub struct Dyn<T: FloatT>(Box<dyn DynView<T>>);
impl<T: FloatT> View<T> for Dyn<T> {
    fn update(&mut self, val: T) {
        self.0.upd(val)
    }
    fn last(&self) -> Option<T> {
        self.0.lst()
    }
}
impl<T: FloatT> Clone for Dyn<T> {
    fn clone(&self) -> Self {
        Dyn(self.0.bclone().expect("NOCLONE"))
    }
}
impl<T: FloatT> Debug for Dyn<T> {
    fn fmt(&self, f: &mut std::fmt::Formatter<'_>) -> std::fmt::Result {
        write!(f, "Dyn")
    }
}

macro_rules! dynview {
    ($($ty:ty),* $(,)?) => { $(
        impl<T: FloatT> DynView<T> for $ty {
            fn upd(&mut self, v: T) { View::update(self, v) }
            fn lst(&self) -> Option<T> { View::last(self) }
            fn bclone(&self) -> Option<Box<dyn DynView<T>>> { Some(Box::new(self.clone())) }
        }
    )* };
}
dynview!(
    Echo<T>, Constant<T>,
    Subtract<T, Dyn<T>, Dyn<T>>, Multiply<T, Dyn<T>, Dyn<T>>, Divide<T, Dyn<T>, Dyn<T>>,
    GTE<T, Dyn<T>>, LTE<T, Dyn<T>>, Tanh<T, Dyn<T>>,
    Drawdown<T, Dyn<T>>, LnReturn<T, Dyn<T>>,
    Sma<T, Dyn<T>>, Cumulative<T, Dyn<T>>, Min<T, Dyn<T>>, Max<T, Dyn<T>>,
    Vst<T, Dyn<T>>, Vsct<T, Dyn<T>>, HLNormalizer<T, Dyn<T>>, Roc<T, Dyn<T>>,
    BinaryEntropy<T, Dyn<T>>, Rsi<T, Dyn<T>>, MyRSI<T, Dyn<T>>, CenterOfGravity<T, Dyn<T>>,
    CorrelationTrendIndicator<T, Dyn<T>>, NoiseEliminationTechnology<T, Dyn<T>>,
    Alma<T, Dyn<T>>, Ema<T, Dyn<T>>, LaguerreFilter<T, Dyn<T>>, LaguerreRSI<T, Dyn<T>>,
    CyberCycle<T, Dyn<T>>, SuperSmoother<T, Dyn<T>>, RoofingFilter<T, Dyn<T>>,
    TrendFlex<T, Dyn<T>>, ReFlex<T, Dyn<T>>,
    EhlersFisherTransform<T, Dyn<T>, Dyn<T>>, PolarizedFractalEfficiency<T, Dyn<T>, Dyn<T>>,
);

// Add does not derive Clone in the crate (DESIGN.md section 6 #17)
impl<T: FloatT> DynView<T> for Add<T, Dyn<T>, Dyn<T>> {
    fn upd(&mut self, v: T) {
        View::update(self, v)
    }
    fn lst(&self) -> Option<T> {
        View::last(self)
    }
    fn bclone(&self) -> Option<Box<dyn DynView<T>>> {
        None
    }
}
impl<T: FloatT> DynView<T> for WelfordOnline<T, Dyn<T>> {
    fn upd(&mut self, v: T) {
        View::update(self, v)
    }
    fn lst(&self) -> Option<T> {
        View::last(self)
    }
    fn bclone(&self) -> Option<Box<dyn DynView<T>>> {
        Some(Box::new(self.clone()))
    }
    fn extras(&self) -> Vec<(&'static str, T)> {
        vec![("mean", self.mean()), ("var", self.variance())]
    }
}
impl<T: FloatT> DynView<T> for WelfordRolling<T, Dyn<T>> {
    fn upd(&mut self, v: T) {
        View::update(self, v)
    }
    fn lst(&self) -> Option<T> {
        View::last(self)
    }
    fn bclone(&self) -> Option<Box<dyn DynView<T>>> {
        Some(Box::new(self.clone()))
    }
    fn extras(&self) -> Vec<(&'static str, T)> {
        vec![("mean", self.mean()), ("var", self.variance())]
    }
}

// --- observation points the harness places *between* the crate's views (no source hooks needed)

thread_local! {
    static EVENTS: RefCell<Vec<Value>> = const { RefCell::new(Vec::new()) };
}
fn log_ev(id: u64, what: &str, o: Value) {
    EVENTS.with(|e| e.borrow_mut().push(json!([id, what, o])));
}
fn drain_events() -> Vec<Value> {
    EVENTS.with(|e| std::mem::take(&mut *e.borrow_mut()))
}

/// transparent wrapper: logs every update it is handed and every last() it answers
#[derive(Clone)]
struct Tap<T: FloatT> {
    id: u64,
    inner: Dyn<T>,
}
impl<T: FloatT> DynView<T> for Tap<T> {
    fn upd(&mut self, v: T) {
        log_ev(self.id, "u", enc(Some(v)));
        self.inner.update(v)
    }
    fn lst(&self) -> Option<T> {
        let r = self.inner.last();
        log_ev(self.id, "l", json!([if r.is_some() { "s" } else { "n" }]));
        r
    }
    fn bclone(&self) -> Option<Box<dyn DynView<T>>> {
        Some(Box::new(self.clone()))
    }
}
/// leaf (instead of Echo): logs what reaches it
#[derive(Clone)]
struct Probe<T: FloatT> {
    id: u64,
    out: Option<T>,
}
impl<T: FloatT> DynView<T> for Probe<T> {
    fn upd(&mut self, v: T) {
        log_ev(self.id, "u", enc(Some(v)));
        self.out = Some(v);
    }
    fn lst(&self) -> Option<T> {
        log_ev(self.id, "l", json!([if self.out.is_some() { "s" } else { "n" }]));
        self.out
    }
    fn bclone(&self) -> Option<Box<dyn DynView<T>>> {
        Some(Box::new(self.clone()))
    }
}

/// C01's decomposition, executed literally: a stand-alone inner view is fed the raw values and, only
/// when it has an output, that output is fed into a stand-alone outer view built over Echo.
#[derive(Clone)]
struct Decomp<T: FloatT> {
    inner: Dyn<T>,
    outer: Dyn<T>,
}
impl<T: FloatT> DynView<T> for Decomp<T> {
    fn upd(&mut self, v: T) {
        self.inner.update(v);
        if let Some(o) = self.inner.last() {
            self.outer.update(o);
        }
    }
    fn lst(&self) -> Option<T> {
        self.outer.last()
    }
    fn bclone(&self) -> Option<Box<dyn DynView<T>>> {
        Some(Box::new(self.clone()))
    }
}

/// reference for C14's "Tanh reports tanh of its child's output, bit-exactly": the platform's f64::tanh applied by the
/// harness to the child's answer (a sibling configuration; TLC compares the two answers bit for bit)
#[derive(Clone)]
struct RefTanh<T: FloatT> {
    inner: Dyn<T>,
}
impl<T: FloatT> DynView<T> for RefTanh<T> {
    fn upd(&mut self, v: T) {
        self.inner.update(v)
    }
    fn lst(&self) -> Option<T> {
        self.inner.last().map(|v| v.tanh())
    }
    fn bclone(&self) -> Option<Box<dyn DynView<T>>> {
        Some(Box::new(self.clone()))
    }
}

// ---------------------------------------------------------------------------------------------
// catalogue: JSON descriptor -> view tree

fn rat<T: FloatT>(v: &Value, what: &str) -> Result<T, String> {
    let a = v.as_array().ok_or(format!("{what}: expected [num,den]"))?;
    let n = a.first().and_then(|x| x.as_i64()).ok_or(format!("{what}: num"))?;
    let d = a.get(1).and_then(|x| x.as_i64()).ok_or(format!("{what}: den"))?;
    Ok(T::from_ratio(n, d))
}
fn usz(d: &Value, f: &str) -> Result<usize, String> {
    d.get(f).and_then(|x| x.as_u64()).map(|x| x as usize).ok_or(format!("missing usize field {f} in {d}"))
}
fn child<T: FloatT>(d: &Value, i: usize) -> Result<Dyn<T>, String> {
    match d.get("c").and_then(|c| c.get(i)) {
        Some(c) => build(c),
        None => Ok(Dyn(Box::new(Echo::<T>::new()))),
    }
}

pub fn build<T: FloatT>(d: &Value) -> Result<Dyn<T>, String> {
    let k = d.get("k").and_then(|k| k.as_str()).ok_or(format!("descriptor without kind: {d}"))?;
    macro_rules! un {
        ($e:expr) => {
            Dyn(Box::new($e))
        };
    }
    Ok(match k {
        "Echo" => un!(Echo::<T>::new()),
        "Constant" => un!(Constant::<T>::new(rat(&d["v"], "v")?)),
        "Add" => un!(Add::<T, _, _>::new(child::<T>(d, 0)?, child::<T>(d, 1)?)),
        "Subtract" => un!(Subtract::<T, _, _>::new(child::<T>(d, 0)?, child::<T>(d, 1)?)),
        "Multiply" => un!(Multiply::<T, _, _>::new(child::<T>(d, 0)?, child::<T>(d, 1)?)),
        "Divide" => un!(Divide::<T, _, _>::new(child::<T>(d, 0)?, child::<T>(d, 1)?)),
        "GTE" => un!(GTE::<T, _>::new(child::<T>(d, 0)?, rat(&d["v"], "v")?)),
        "LTE" => un!(LTE::<T, _>::new(child::<T>(d, 0)?, rat(&d["v"], "v")?)),
        "Tanh" => un!(Tanh::<T, _>::new(child::<T>(d, 0)?)),
        "Drawdown" => un!(Drawdown::<T, _>::new(child::<T>(d, 0)?)),
        "LnReturn" => un!(LnReturn::<T, _>::new(child::<T>(d, 0)?)),
        "WelfordRolling" => un!(WelfordRolling::<T, _>::new(child::<T>(d, 0)?)),
        "Sma" => un!(Sma::<T, _>::new(child::<T>(d, 0)?, usz(d, "n")?)),
        "Cumulative" => un!(Cumulative::<T, _>::new(child::<T>(d, 0)?, usz(d, "n")?)),
        "Min" => un!(Min::<T, _>::new(child::<T>(d, 0)?, usz(d, "n")?)),
        "Max" => un!(Max::<T, _>::new(child::<T>(d, 0)?, usz(d, "n")?)),
        "WelfordOnline" => un!(WelfordOnline::<T, _>::new(child::<T>(d, 0)?, usz(d, "n")?)),
        "Vst" => un!(Vst::<T, _>::new(child::<T>(d, 0)?, usz(d, "n")?)),
        "Vsct" => un!(Vsct::<T, _>::new(child::<T>(d, 0)?, usz(d, "n")?)),
        "HLNormalizer" => un!(HLNormalizer::<T, _>::new(child::<T>(d, 0)?, usz(d, "n")?)),
        "Roc" => un!(Roc::<T, _>::new(child::<T>(d, 0)?, usz(d, "n")?)),
        "BinaryEntropy" => un!(BinaryEntropy::<T, _>::new(child::<T>(d, 0)?, usz(d, "n")?)),
        "Rsi" => un!(Rsi::<T, _>::new(child::<T>(d, 0)?, usz(d, "n")?)),
        "MyRSI" => un!(MyRSI::<T, _>::new(child::<T>(d, 0)?, usz(d, "n")?)),
        "CenterOfGravity" => un!(CenterOfGravity::<T, _>::new(child::<T>(d, 0)?, usz(d, "n")?)),
        "CorrelationTrendIndicator" => {
            un!(CorrelationTrendIndicator::<T, _>::new(child::<T>(d, 0)?, usz(d, "n")?))
        }
        "NoiseEliminationTechnology" => {
            un!(NoiseEliminationTechnology::<T, _>::new(child::<T>(d, 0)?, usz(d, "n")?))
        }
        "Alma" => {
            if d.get("sigma").is_some() {
                un!(Alma::<T, _>::new_custom(
                    child::<T>(d, 0)?,
                    usz(d, "n")?,
                    rat(&d["sigma"], "sigma")?,
                    rat(&d["offset"], "offset")?
                ))
            } else {
                un!(Alma::<T, _>::new(child::<T>(d, 0)?, usz(d, "n")?))
            }
        }
        "Ema" => {
            if d.get("alpha").is_some() {
                un!(Ema::<T, _>::with_alpha(child::<T>(d, 0)?, usz(d, "n")?, rat(&d["alpha"], "alpha")?))
            } else {
                un!(Ema::<T, _>::new(child::<T>(d, 0)?, usz(d, "n")?))
            }
        }
        "LaguerreFilter" => un!(LaguerreFilter::<T, _>::new(child::<T>(d, 0)?, rat(&d["g"], "g")?)),
        "LaguerreRSI" => un!(LaguerreRSI::<T, _>::new(child::<T>(d, 0)?, usz(d, "n")?)),
        "CyberCycle" => un!(CyberCycle::<T, _>::new(child::<T>(d, 0)?, usz(d, "n")?)),
        "SuperSmoother" => un!(SuperSmoother::<T, _>::new(child::<T>(d, 0)?, usz(d, "n")?)),
        "RoofingFilter" => un!(RoofingFilter::<T, _>::new(child::<T>(d, 0)?, usz(d, "n")?, usz(d, "m")?)),
        "TrendFlex" => un!(TrendFlex::<T, _>::new(child::<T>(d, 0)?, usz(d, "n")?)),
        "ReFlex" => un!(ReFlex::<T, _>::new(child::<T>(d, 0)?, usz(d, "n")?)),
        "EhlersFisherTransform" => un!(EhlersFisherTransform::<T, _, _>::new(
            child::<T>(d, 0)?,
            child::<T>(d, 1)?,
            usz(d, "n")?
        )),
        "PolarizedFractalEfficiency" => un!(PolarizedFractalEfficiency::<T, _, _>::new(
            child::<T>(d, 0)?,
            child::<T>(d, 1)?,
            usz(d, "n")?
        )),
        "Tap" => un!(Tap::<T> { id: d["id"].as_u64().ok_or("Tap id")?, inner: child::<T>(d, 0)? }),
        "Probe" => un!(Probe::<T> { id: d["id"].as_u64().ok_or("Probe id")?, out: None }),
        "RefTanh" => un!(RefTanh::<T> { inner: child::<T>(d, 0)? }),
        "Decomp" => un!(Decomp::<T> { inner: build(&d["inner"])?, outer: build(&d["outer"])? }),
        other => return Err(format!("unknown kind {other}")),
    })
}

/// constructor under catch_unwind: Ok(view) | Err("reject") for a constructor that refuses the
/// configuration by panicking (e.g. `assert!(window_len > 0)`)
fn try_build<T: FloatT>(d: &Value) -> Result<Dyn<T>, String> {
    match catch_unwind(AssertUnwindSafe(|| build::<T>(d))) {
        Ok(Ok(v)) => Ok(v),
        Ok(Err(e)) => Err(format!("error:{e}")),
        Err(_) => Err("reject".to_string()),
    }
}

// ---------------------------------------------------------------------------------------------
// guarded operations: panics are data

enum Slot<T: FloatT> {
    Empty,
    Live(Dyn<T>),
    Dead, // panicked earlier: every later observation on it is ["p"]
}

fn g_update<T: FloatT>(s: &mut Slot<T>, x: T) -> Value {
    match s {
        Slot::Live(v) => {
            let r = catch_unwind(AssertUnwindSafe(|| v.update(x)));
            if r.is_err() {
                *s = Slot::Dead;
                json!("p")
            } else {
                json!("ok")
            }
        }
        Slot::Dead => json!("p"),
        Slot::Empty => json!("empty"),
    }
}
fn g_last<T: FloatT>(s: &mut Slot<T>) -> Value {
    match s {
        Slot::Live(v) => match catch_unwind(AssertUnwindSafe(|| v.last())) {
            Ok(o) => enc(o),
            Err(_) => json!(["p"]), // last() takes &self: the instance stays usable
        },
        Slot::Dead => json!(["p"]),
        Slot::Empty => json!(["empty"]),
    }
}
fn g_extras<T: FloatT>(s: &mut Slot<T>) -> Value {
    match s {
        Slot::Live(v) => match catch_unwind(AssertUnwindSafe(|| v.0.extras())) {
            Ok(xs) => {
                let mut m = serde_json::Map::new();
                for (k, x) in xs {
                    m.insert(k.to_string(), enc(Some(x)));
                }
                Value::Object(m)
            }
            Err(_) => json!({"p": 1}),
        },
        _ => json!({"p": 1}),
    }
}

fn input<T: FloatT>(x: &Value, unit: i64) -> T {
    // an input is m (the value m / unit) or [m, e] (the value (m / unit) * 2^e: an exact shift, for streams whose dynamic range
    // exceeds what 31-bit integers can express)
    if let Some(a) = x.as_array() {
        let m = a[0].as_i64().expect("integer mantissa");
        let e = a[1].as_i64().expect("integer exponent") as i32;
        return T::from_ratio(m, unit) * T::from(2.0f64.powi(e)).expect("power of two");
    }
    T::from_ratio(x.as_i64().expect("integer input"), unit)
}

// ---------------------------------------------------------------------------------------------
// mode: run  (programs over slots)

fn run_prog<T: FloatT>(exp: &Value) -> Value {
    let unit = exp.get("unit").and_then(|u| u.as_i64()).unwrap_or(1);
    let nslots = exp.get("slots").and_then(|u| u.as_u64()).unwrap_or(4) as usize;
    let mut slots: Vec<Slot<T>> = (0..nslots).map(|_| Slot::Empty).collect();
    let mut res = Vec::new();
    drain_events();
    for op in exp["prog"].as_array().expect("prog") {
        let name = op[0].as_str().expect("op name");
        let r = match name {
            "new" => {
                let i = op[1].as_u64().unwrap() as usize;
                match try_build::<T>(&op[2]) {
                    Ok(v) => {
                        slots[i] = Slot::Live(v);
                        json!("ok")
                    }
                    Err(e) => {
                        slots[i] = Slot::Empty;
                        json!(e)
                    }
                }
            }
            "u" => {
                let i = op[1].as_u64().unwrap() as usize;
                g_update(&mut slots[i], input::<T>(&op[2], unit))
            }
            "l" => {
                let i = op[1].as_u64().unwrap() as usize;
                g_last(&mut slots[i])
            }
            "x" => {
                let i = op[1].as_u64().unwrap() as usize;
                g_extras(&mut slots[i])
            }
            // compressed stream: update then last for every value; optional extras
            "us" | "usx" => {
                let i = op[1].as_u64().unwrap() as usize;
                let mut out = Vec::new();
                for x in op[2].as_array().unwrap() {
                    g_update(&mut slots[i], input::<T>(x, unit));
                    if name == "usx" {
                        out.push(json!([g_last(&mut slots[i]), g_extras(&mut slots[i])]));
                    } else {
                        out.push(g_last(&mut slots[i]));
                    }
                }
                Value::Array(out)
            }
            // like "us" but only every k-th observation is kept (long streams)
            "uss" => {
                let i = op[1].as_u64().unwrap() as usize;
                let k = op[3].as_u64().unwrap() as usize;
                let mut out = Vec::new();
                for (j, x) in op[2].as_array().unwrap().iter().enumerate() {
                    g_update(&mut slots[i], input::<T>(x, unit));
                    if (j + 1) % k == 0 {
                        out.push(g_last(&mut slots[i]));
                    }
                }
                Value::Array(out)
            }
            // like "uss" with the extra getters (mean, var) next to every kept answer
            "ussx" => {
                let i = op[1].as_u64().unwrap() as usize;
                let k = op[3].as_u64().unwrap() as usize;
                let mut out = Vec::new();
                for (j, x) in op[2].as_array().unwrap().iter().enumerate() {
                    g_update(&mut slots[i], input::<T>(x, unit));
                    if (j + 1) % k == 0 {
                        out.push(json!([g_last(&mut slots[i]), g_extras(&mut slots[i])]));
                    }
                }
                Value::Array(out)
            }
            // like "uss", and additionally every answer inside the given [from, to] step ranges (1-based) is kept
            "usr" => {
                let i = op[1].as_u64().unwrap() as usize;
                let k = op[3].as_u64().unwrap() as usize;
                let ranges: Vec<(usize, usize)> = op[4]
                    .as_array()
                    .unwrap()
                    .iter()
                    .map(|r| (r[0].as_u64().unwrap() as usize, r[1].as_u64().unwrap() as usize))
                    .collect();
                let mut out = Vec::new();
                for (j, x) in op[2].as_array().unwrap().iter().enumerate() {
                    g_update(&mut slots[i], input::<T>(x, unit));
                    let step = j + 1;
                    if step % k == 0 || ranges.iter().any(|(a, b)| step >= *a && step <= *b) {
                        out.push(json!([step, g_last(&mut slots[i])]));
                    }
                }
                Value::Array(out)
            }
            "clone" => {
                let s = op[1].as_u64().unwrap() as usize;
                let d = op[2].as_u64().unwrap() as usize;
                let c = match &slots[s] {
                    Slot::Live(v) => match catch_unwind(AssertUnwindSafe(|| v.0.bclone())) {
                        Ok(Some(b)) => Ok(Slot::Live(Dyn(b))),
                        Ok(None) => Err("noclone"),
                        Err(_) => Err("noclone"), // a nested non-Clone node (Add) panics with NOCLONE
                    },
                    Slot::Dead => Ok(Slot::Dead),
                    Slot::Empty => Err("empty"),
                };
                match c {
                    Ok(v) => {
                        slots[d] = v;
                        json!("ok")
                    }
                    Err(e) => json!(e),
                }
            }
            "drop" => {
                let i = op[1].as_u64().unwrap() as usize;
                slots[i] = Slot::Empty;
                json!("ok")
            }
            "ev" => Value::Array(drain_events()),
            other => panic!("unknown op {other}"),
        };
        res.push(r);
    }
    let mut o = exp.clone();
    o["res"] = Value::Array(res);
    o
}

fn mode_run(inp: &str, out: &str) {
    let isolate = std::env::var("SFV_ISOLATE").map(|v| v == "1").unwrap_or(false);
    let r = BufReader::new(std::fs::File::open(inp).expect("open input"));
    let mut w = BufWriter::new(std::fs::File::create(out).expect("create output"));
    for line in r.lines() {
        let line = line.unwrap();
        if line.trim().is_empty() {
            continue;
        }
        let exp: Value = serde_json::from_str(&line).expect("json");
        let go = move |exp: Value| {
            if exp.get("float").and_then(|f| f.as_str()) == Some("f32") {
                run_prog::<f32>(&exp)
            } else {
                run_prog::<f64>(&exp)
            }
        };
        // SFV_ISOLATE=1: every program on a thread of its own, so that nothing thread-local survives from one program to the
        // next (C17: the same program is also run in a second process, in another order, on one thread; the answers must agree)
        let o = if isolate {
            std::thread::Builder::new().stack_size(64 << 20).spawn(move || go(exp)).expect("spawn").join().expect("join")
        } else {
            go(exp)
        };
        writeln!(w, "{}", o).unwrap();
    }
}

// ---------------------------------------------------------------------------------------------
// mode: table  (complete behaviour tree of a scope)

#[allow(clippy::too_many_arguments)]
fn table_cfg<T: FloatT>(ci: usize, cfg: &Value, alpha: &[i64], unit: i64, maxlen: usize, extras: bool, taps: bool, prefix: &[i64], pow2: i32, w: &mut impl Write) {
    // inputs are (x / unit) * 2^pow2: an exact change of units by a power of two (C12)
    let scale = T::from(2.0f64.powi(pow2)).expect("scale");
    let a = alpha.len();
    // level l has a^l entries
    let mut obs: Vec<Vec<Value>> = (0..=maxlen).map(|l| vec![Value::Null; a.pow(l as u32)]).collect();
    let mut exs: Vec<Vec<Value>> = (0..=maxlen).map(|l| vec![Value::Null; a.pow(l as u32)]).collect();
    let mut evs: Vec<Vec<Value>> = (0..=maxlen).map(|l| vec![Value::Null; a.pow(l as u32)]).collect();
    let total = a.pow(maxlen as u32);
    let mut rejected = false;
    let mut base: Option<Dyn<T>> = None;
    let mut base_tried = false;
    for full in 0..total {
        // digits of `full`, most significant first
        let mut codes = vec![0usize; maxlen];
        let mut t = full;
        for j in (0..maxlen).rev() {
            codes[j] = t % a;
            t /= a;
        }
        // only walk prefixes not yet recorded: a prefix of length l is new iff the remaining digits are all 0
        let mut first_new = maxlen + 1;
        for l in 0..=maxlen {
            if codes[l..].iter().all(|&c| c == 0) {
                first_new = l;
                break;
            }
        }
        drain_events();
        // an optional common prefix is fed before the tree starts (C03: what preceded must not matter).  A long prefix is fed
        // once and the view cloned from there for every branch - where the view can be cloned; otherwise it is replayed
        let mut slot: Slot<T> = match base.as_ref().and_then(|b: &Dyn<T>| catch_unwind(AssertUnwindSafe(|| b.0.bclone())).ok().flatten()) {
            Some(b) => Slot::Live(Dyn(b)),
            None => {
                let mut sl: Slot<T> = match try_build::<T>(cfg) {
                    Ok(v) => Slot::Live(v),
                    Err(_) => {
                        rejected = true;
                        break;
                    }
                };
                for &x in prefix {
                    g_update(&mut sl, T::from_ratio(x, unit) * scale);
                }
                if prefix.len() > 16 && base.is_none() && !base_tried {
                    base_tried = true;
                    if let Slot::Live(v) = &sl {
                        if let Ok(Some(b)) = catch_unwind(AssertUnwindSafe(|| v.0.bclone())) {
                            base = Some(Dyn(b));
                        }
                    }
                }
                sl
            }
        };
        let mut idx = 0usize;
        if first_new == 0 {
            obs[0][0] = g_last(&mut slot);
            if extras {
                exs[0][0] = g_extras(&mut slot);
            }
            if taps {
                evs[0][0] = Value::Array(drain_events());
            }
        }
        for l in 1..=maxlen {
            idx = idx * a + codes[l - 1];
            drain_events();
            g_update(&mut slot, T::from_ratio(alpha[codes[l - 1]], unit) * scale);
            if l >= first_new {
                obs[l][idx] = g_last(&mut slot);
                if extras {
                    exs[l][idx] = g_extras(&mut slot);
                }
                if taps {
                    evs[l][idx] = Value::Array(drain_events());
                }
            } else if matches!(slot, Slot::Dead) {
                // nothing new can be learned below a dead prefix, but the entries must still be filled
            }
        }
    }
    for l in 0..=maxlen {
        let mut line = json!({"c": ci + 1, "l": l});
        if rejected {
            line["o"] = Value::Array(vec![json!(["reject"]); a.pow(l as u32)]);
        } else {
            line["o"] = Value::Array(std::mem::take(&mut obs[l]));
            if extras {
                line["x"] = Value::Array(std::mem::take(&mut exs[l]));
            }
            if taps {
                line["ev"] = Value::Array(std::mem::take(&mut evs[l]));
            }
        }
        writeln!(w, "{}", line).unwrap();
    }
}

fn mode_table(inp: &str, out: &str) {
    let scope: Value = serde_json::from_str(&std::fs::read_to_string(inp).expect("read scope")).expect("json");
    let mut w = BufWriter::new(std::fs::File::create(out).expect("create output"));
    let alpha: Vec<i64> = scope["alphabet"].as_array().unwrap().iter().map(|x| x.as_i64().unwrap()).collect();
    let unit = scope.get("unit").and_then(|u| u.as_i64()).unwrap_or(1);
    let maxlen = scope["maxlen"].as_u64().unwrap() as usize;
    let extras = scope.get("extras").and_then(|b| b.as_bool()).unwrap_or(false);
    let taps = scope.get("taps").and_then(|b| b.as_bool()).unwrap_or(false);
    let f32_ = scope.get("float").and_then(|f| f.as_str()) == Some("f32");
    let prefix: Vec<i64> = scope
        .get("prefix")
        .and_then(|p| p.as_array())
        .map(|a| a.iter().map(|x| x.as_i64().unwrap()).collect())
        .unwrap_or_default();
    let pow2 = scope.get("pow2").and_then(|p| p.as_i64()).unwrap_or(0) as i32;
    OUT_POW2.with(|c| c.set(scope.get("outpow2").and_then(|p| p.as_i64()).unwrap_or(0) as i32));
    for (ci, cfg) in scope["cfgs"].as_array().unwrap().iter().enumerate() {
        // a per-configuration maxlen may override the scope's
        let ml = cfg.get("maxlen").and_then(|m| m.as_u64()).map(|m| m as usize).unwrap_or(maxlen);
        let _ = ml;
        if f32_ {
            table_cfg::<f32>(ci, cfg, &alpha, unit, maxlen, extras, taps, &prefix, pow2, &mut w);
        } else {
            table_cfg::<f64>(ci, cfg, &alpha, unit, maxlen, extras, taps, &prefix, pow2, &mut w);
        }
    }
}

// ---------------------------------------------------------------------------------------------
// mode: mem

fn mem_exp<T: FloatT>(exp: &Value) -> Value {
    let unit = exp.get("unit").and_then(|u| u.as_i64()).unwrap_or(1);
    let marks: Vec<u64> = exp["marks"].as_array().unwrap().iter().map(|x| x.as_u64().unwrap()).collect();
    let period: Vec<i64> = exp["period"].as_array().unwrap().iter().map(|x| x.as_i64().unwrap()).collect();
    let ramp: i64 = exp.get("ramp").and_then(|r| r.as_i64()).unwrap_or(0);
    let poll: u64 = exp.get("poll").and_then(|r| r.as_u64()).unwrap_or(0);
    let clone_every: u64 = exp.get("clone_every").and_then(|r| r.as_u64()).unwrap_or(0);
    // everything the harness itself allocates during the measurement is allocated up front
    let mut raw: Vec<(u64, isize)> = Vec::with_capacity(marks.len() + 1);
    let mut o = exp.clone();
    let before = LIVE.load(Ordering::Relaxed);
    let built = try_build::<T>(&exp["cfg"]);
    match built {
        Err(e) => {
            o["res"] = json!(e);
        }
        Ok(mut v) => {
            let after_new = LIVE.load(Ordering::Relaxed) - before;
            let last_mark = *marks.last().unwrap();
            let mut dead = false;
            let mut mi = 0;
            for step in 1..=last_mark {
                // a periodic pattern, optionally riding on a ramp (so that new all-time highs / lows keep occurring)
                let cycle = ((step - 1) as usize) / period.len();
                let x = T::from_ratio(period[((step - 1) as usize) % period.len()] + ramp * cycle as i64, unit);
                if catch_unwind(AssertUnwindSafe(|| v.update(x))).is_err() {
                    dead = true;
                    break;
                }
                // optional: poll the answer `poll` times after every update; replace the view by its clone every `clone_every` steps
                for _ in 0..poll {
                    if catch_unwind(AssertUnwindSafe(|| v.last())).is_err() {
                        dead = true;
                    }
                }
                if clone_every > 0 && step % clone_every == 0 {
                    if let Ok(Some(b)) = catch_unwind(AssertUnwindSafe(|| v.0.bclone())) {
                        v = Dyn(b);
                    }
                }
                if dead {
                    break;
                }
                if step == marks[mi] {
                    raw.push((step, LIVE.load(Ordering::Relaxed) - before));
                    mi += 1;
                }
            }
            drop(v);
            let out: Vec<Value> = raw.iter().map(|(s, b)| json!([s, b])).collect();
            o["res"] = json!({"new": after_new, "marks": out, "panic": dead});
        }
    }
    o
}

fn mode_mem(inp: &str, out: &str) {
    let r = BufReader::new(std::fs::File::open(inp).expect("open input"));
    let mut w = BufWriter::new(std::fs::File::create(out).expect("create output"));
    for line in r.lines() {
        let line = line.unwrap();
        if line.trim().is_empty() {
            continue;
        }
        let exp: Value = serde_json::from_str(&line).expect("json");
        let o = if exp.get("float").and_then(|f| f.as_str()) == Some("f32") {
            mem_exp::<f32>(&exp)
        } else {
            mem_exp::<f64>(&exp)
        };
        writeln!(w, "{}", o).unwrap();
        w.flush().unwrap();
    }
}

fn main() {
    std::panic::set_hook(Box::new(|_| {})); // panics of the code under test are data, not noise
    let args: Vec<String> = std::env::args().collect();
    if args.len() != 4 {
        eprintln!("usage: sfv-harness table|run|mem <in> <out>");
        std::process::exit(2);
    }
    // the harness' own failures must not be mistaken for observations
    let r = catch_unwind(AssertUnwindSafe(|| match args[1].as_str() {
        "table" => mode_table(&args[2], &args[3]),
        "run" => mode_run(&args[2], &args[3]),
        "mem" => mode_mem(&args[2], &args[3]),
        _ => {
            eprintln!("unknown mode");
            std::process::exit(2);
        }
    }));
    if r.is_err() {
        eprintln!("harness error (not an observation)");
        std::process::exit(2);
    }
}
