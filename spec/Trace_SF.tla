------------------------------ MODULE Trace_SF ------------------------------
(***************************************************************************)
(* Validation of recorded programs (pipeline P2/P3).  Every line of the    *)
(* trace is one behaviour of SF.tla that the harness executed against the  *)
(* real crate, with the answer of every operation.  The trace is consumed  *)
(* one line per step; each line is re-executed on SF's abstract state      *)
(* (configuration, history per slot) and judged:                           *)
(*   C17  every answer is a function of (configuration, history): any two  *)
(*        last() answers of the behaviour with the same pair are           *)
(*        bit-identical (twins, repeated last(), clones, non-interference) *)
(*        and a second execution of the same program in another process,   *)
(*        thread and order gives the same answers (field res2)             *)
(*   C15  no operation panicked                                            *)
(***************************************************************************)
EXTENDS Obs, Tally, Json, IOUtils, TLC

Rec  == ndJsonDeserialize(IOEnv.TRACE)
Prop == IOEnv.PROP

VARIABLE l
Init == l = 1
Next == l <= Len(Rec) /\ l' = l + 1

(* re-execute one program on the abstract state; acc = <<slots, seen, ok17, ok15>> where
   seen is the sequence of <<cfg, history, answer>> of all last() calls so far *)
RECURSIVE Exec(_, _, _, _)
Exec(prog, res, i, acc) ==
    IF i > Len(prog) THEN acc
    ELSE
    LET op == prog[i] r == res[i] slots == acc[1] seen == acc[2]
        s == op[2] + 1
    IN
    CASE op[1] = "new" ->
            Exec(prog, res, i + 1, <<[slots EXCEPT ![s] = IF r = "ok" THEN <<"live", op[3], <<>>>> ELSE <<"empty">>], seen, acc[3], acc[4]>>)
      [] op[1] = "u" ->
            Exec(prog, res, i + 1, <<[slots EXCEPT ![s] = IF slots[s][1] = "live" THEN <<"live", slots[s][2], Append(slots[s][3], op[3])>> ELSE slots[s]],
                                     seen, acc[3], acc[4] /\ r # "p">>)
      [] op[1] = "l" ->
            IF slots[s][1] # "live" THEN Exec(prog, res, i + 1, acc)
            ELSE LET same == \A k \in 1..Len(seen) :
                                (seen[k][1] = slots[s][2] /\ seen[k][2] = slots[s][3]) => OSame(seen[k][3], r)
                 IN  Exec(prog, res, i + 1, <<slots, Append(seen, <<slots[s][2], slots[s][3], r>>), acc[3] /\ same, acc[4] /\ r[1] # "p">>)
      [] op[1] = "clone" ->
            Exec(prog, res, i + 1, <<IF r = "ok" THEN [slots EXCEPT ![op[3] + 1] = slots[s]] ELSE slots, seen, acc[3], acc[4]>>)
      [] op[1] = "drop" ->
            Exec(prog, res, i + 1, <<[slots EXCEPT ![s] = <<"empty">>], seen, acc[3], acc[4]>>)
      [] OTHER -> Exec(prog, res, i + 1, acc)

Judge(e) == Exec(e.prog, e.res, 1, <<[i \in 1..e.slots |-> <<"empty">>], <<>>, TRUE, TRUE>>)

Report(clause) == /\ Tally("viol")
                  /\ \/ ~TallyUpTo("print." \o clause, 40)
                     \/ PrintT(<<"VIOL", Prop, clause, l>>)

(* the same program executed a second time, in another process, after other programs and on a thread it shares with them:
   the recorded answers are the same, operation by operation, bit for bit *)
Repeatable(e) == "res2" \notin DOMAIN e \/ (Tally("repeated") /\ e.res = e.res2)

Verdict == \/ l > Len(Rec)
           \/ LET j == Judge(Rec[l]) IN
              /\ Tally("programs")
              /\ (Prop # "C17" \/ Repeatable(Rec[l]) \/ Report("answer-depends-on-other-instances-or-earlier-programs"))
              /\ Tally("answers." \o ToString(Len(j[2])))
              /\ (Prop # "C17" \/ j[3] \/ Report("answer-not-a-function-of-config-and-history"))
              /\ (Prop # "C15" \/ j[4] \/ Report("panic"))

Post == /\ TallyDump(TLCGet("stats").generated)
        /\ TLCGet("stats").diameter = Len(Rec) + 1      \* every line of the trace was consumed
=============================================================================
