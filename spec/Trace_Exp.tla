------------------------------ MODULE Trace_Exp -----------------------------
(***************************************************************************)
(* Validation of recorded experiments, one per trace line (pipeline P3):   *)
(*   C09 (b)  bounded input => bounded finite output with a bound that     *)
(*            does not grow with the stream; two streams with a common     *)
(*            tail => outputs agree to 1e-9 x scale at the end of the tail  *)
(*   C18      live heap bytes owned by a view do not grow once its window  *)
(*            has filled, and stay under CellBound(view, N)                 *)
(***************************************************************************)
EXTENDS Tree, Tally, Json, IOUtils, TLC

Rec  == ndJsonDeserialize(IOEnv.TRACE)
Prop == IOEnv.PROP

VARIABLE l
Init == l = 1
Next == l <= Len(Rec) /\ l' = l + 1

Report(clause) == /\ Tally("viol")
                  /\ \/ ~TallyUpTo("print." \o clause, 60)
                     \/ PrintT(<<"VIOL", Prop, clause, l>>)

-----------------------------------------------------------------------------
(* C09 *)
Gain == QInt(100)      \* generous uniform BIBO bound: every stable view of the catalogue has gain < 5
Bounded(os, mag) ==
    \A i \in 1..Len(os) : OIsNone(os[i]) \/ (OIsSome(os[i]) /\ QLe(QAbs(OQ(os[i])), QMul(Gain, mag)))
C09OK(e) ==
    LET mag == QMax(QOne, QFrac(e.maxabs, e.unit)) IN
    /\ (Bounded(e.oa, mag) \/ Report("unbounded-or-non-finite"))
    /\ \/ e.kind # "pair"
       \/ /\ (Bounded(e.ob, mag) \/ Report("unbounded-or-non-finite"))
          /\ LET a == e.oa[Len(e.oa)] b == e.ob[Len(e.ob)]
                 \* after the common tail what remains of the past must be below 1e-9 of the scale of the TAIL
                 tmag == IF "tailabs" \in DOMAIN e THEN QMax(QOne, QFrac(e.tailabs, e.unit)) ELSE mag
             IN
             /\ \/ (Tally("pairs") /\ OIsSome(a) /\ OIsSome(b) /\ QClose(OQ(a), OQ(b), QMul(QPow10Neg(9), tmag)))
                \/ (OIsNone(a) /\ OIsNone(b))
                \* a constant common tail is named separately: a normalised ratio of quantities that all vanish there (LaguerreRSI:
                \* CU/(CU+CD) of stage differences decaying like gamma^t) has a limit that depends on the past even in exact
                \* arithmetic - known finding KF2; every other view, and every other tail, must converge
                \* TrendFlex / ReFlex divide a mean slope d (decaying like a1^t on a constant tail, a1 = exp(-8.884/N)) by sqrt(ms),
                \* ms = 0.04 d^2 + 0.96 ms.  While a1^2 < 0.96 the normaliser outlives the slope and the answer fades to 0; from
                \* a1^2 >= 0.96 on (N >= 436) it does not, and the sign of the limit is the direction of approach - known finding KF3,
                \* attributed only where the specification's own coefficient says so
                \/ Report(IF "tail" \in DOMAIN e /\ e.tail = "constant"
                          THEN (IF e.cfg.k \in {"TrendFlex", "ReFlex"} /\ WCmp(FNeg(FlexCoef(e.cfg.n)[3]), FQ(96, 100)) >= 0
                                THEN "early-values-do-not-fade-on-a-constant-tail-slow-smoother"
                                ELSE "early-values-do-not-fade-on-a-constant-tail")
                          ELSE "early-values-do-not-fade")
             \* where the experiment says so, the two runs must already agree at every recorded answer from input number
             \* `agree_from` on (a long flat run has let everything decay; movement resumes there), not only at the very end
             /\ \/ "agree_from" \notin DOMAIN e
                \/ (Tally("pairs-along") /\
                    \A i \in 1..Len(e.oa) : \/ i * e.k < e.agree_from \/ i > Len(e.ob)
                                            \/ (OIsSome(e.oa[i]) /\ OIsSome(e.ob[i]) /\ QClose(OQ(e.oa[i]), OQ(e.ob[i]), QMul(QPow10Neg(7), tmag)))
                                            \/ (OIsNone(e.oa[i]) /\ OIsNone(e.ob[i])))
                \/ Report("early-values-return-after-a-flat-run")

-----------------------------------------------------------------------------
(* C18 *)
Fifos(k) == CASE k \in {"Sma", "Cumulative", "Min", "Max", "WelfordOnline", "Vst", "Vsct", "HLNormalizer", "Roc", "BinaryEntropy", "Rsi",
                        "MyRSI", "CenterOfGravity", "CorrelationTrendIndicator", "TrendFlex", "ReFlex",
                        "PolarizedFractalEfficiency"} -> 1
              [] k = "NoiseEliminationTechnology" -> 1
              [] k \in {"Alma", "EhlersFisherTransform"} -> 3
              [] k = "LaguerreRSI" -> 4
              [] k = "CyberCycle" -> 3
              [] OTHER -> 0
RECURSIVE CellBound(_)
(* scalars a tree may hold once its windows are full, allowing for power-of-two capacity growth of the buffers *)
CellBound(node) ==
    LET n == IF HasField(node, "n") THEN node.n ELSE 1
        own == Fifos(node.k) * (4 * n + 16) + 40
        kids == IF HasField(node, "c") THEN node.c ELSE <<>>
    IN  own + (IF kids = <<>> THEN 0 ELSE CellBound(kids[1]) + (IF Len(kids) > 1 THEN CellBound(kids[2]) ELSE 0))
C18OK(e) ==
    LET m == e.res.marks
        first == m[1][2] last == m[Len(m)][2]
    IN  /\ (~e.res.panic \/ Report("panic"))
        /\ Tally("views")
        /\ (last <= first \/ Report("memory-grows-with-stream-length"))
        /\ (last <= 8 * CellBound(e.cfg) \/ Report("memory-above-window-bound"))

Verdict == \/ l > Len(Rec)
           \/ /\ Tally("lines")
              /\ CASE Prop = "C09" -> C09OK(Rec[l])
                   [] Prop = "C18" -> C18OK(Rec[l])

Post == /\ TallyDump(TLCGet("stats").generated)
        /\ TLCGet("stats").diameter = Len(Rec) + 1
=============================================================================
