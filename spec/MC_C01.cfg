INIT InitC
NEXT Next
INVARIANT Verdict
POSTCONDITION Post
CHECK_DEADLOCK FALSE
