-------------------------------- MODULE Defs --------------------------------
(***************************************************************************)
(* The DEFINITIONS the properties state, as batch formulas over the        *)
(* complete sequence xs of values delivered to a view (exact rationals).   *)
(* They are written from the property statements (properties.jsonl) and    *)
(* DESIGN.md Appendix A, independently of the incremental code in /repo.   *)
(*                                                                         *)
(* A definition returns one of                                             *)
(*   <<"n">>        the view must report None                              *)
(*   <<"q", q>>     it must report the exact rational q                    *)
(*   <<"f", f>>     it must report the real number approximated by the     *)
(*                  fixed-point value f (Fx, 20 decimals)                  *)
(*   <<"oq", q>> / <<"of", f>>   None is allowed; a reported value must be  *)
(*                  q / f  (readiness is C08's business, not this          *)
(*                  definition's)                                          *)
(*   <<"sq", q>> / <<"osq", q>>  a non-negative value whose SQUARE is the  *)
(*                  exact rational q: standard deviations are compared     *)
(*                  through their square, because sqrt turns the 1e-16     *)
(*                  rounding noise of a variance into 1e-8                 *)
(*   <<"hold">>     the view must keep its previous answer                 *)
(*   <<"any">>      the properties say nothing here                        *)
(***************************************************************************)
EXTENDS SeqX

RNone    == <<"n">>
RAny     == <<"any">>
RHold    == <<"hold">>
RQ(q)    == <<"q", q>>
RF(f)    == <<"f", f>>
ROQ(q)   == <<"oq", q>>
ROF(f)   == <<"of", f>>
RSq(q)   == <<"sq", q>>       \* a non-negative value whose square is q (standard deviations)
ROSq(q)  == <<"osq", q>>

Two  == QInt(2)
Hund == QInt(100)

HasField(node, f) == f \in DOMAIN node
ParamQ(p) == QFrac(p[1], p[2])

-----------------------------------------------------------------------------
(* class W: windowed, exact *)

Sma_Def(N, xs) ==
    LET t == Len(xs) w == LastK(xs, N) IN
    IF t = 0 THEN RAny ELSE IF t >= N THEN RQ(QMean(w)) ELSE ROQ(QMean(w))

Cumulative_Def(N, xs) == IF Len(xs) = 0 THEN RAny ELSE RQ(QSum(LastK(xs, N)))
Min_Def(N, xs) == IF Len(xs) = 0 THEN RAny ELSE RQ(QMinSeq(LastK(xs, N)))
Max_Def(N, xs) == IF Len(xs) = 0 THEN RAny ELSE RQ(QMaxSeq(LastK(xs, N)))

(* sample variance of the window, 0 for a single value *)
WVar(w) == IF Len(w) <= 1 THEN QZero ELSE QDiv(QSS(w), QInt(Len(w) - 1))
WStdF(w) == FSqrt(FFromQ(WVar(w)))

WelfordOnline_Def(N, xs) ==
    LET t == Len(xs) w == LastK(xs, N) IN
    IF t = 0 THEN RAny ELSE IF t >= N THEN RSq(WVar(w)) ELSE ROSq(WVar(w))
WelfordOnlineMean_Def(N, xs) == IF Len(xs) = 0 THEN RAny ELSE RQ(QMean(LastK(xs, N)))
WelfordOnlineVar_Def(N, xs)  == IF Len(xs) = 0 THEN RAny ELSE RQ(WVar(LastK(xs, N)))

(* x / std and (x - mean) / std are formed through their squares, x^2 / var, as exact rationals: the result is of
   order 1 whatever the unit of the inputs, so the 20 fixed-point decimals never underflow *)
SignedSqrt(num, var) == LET r == FSqrt(FFromQ(QDiv(QSq(num), var))) IN IF QSign(num) < 0 THEN FNeg(r) ELSE r
Vst_Def(N, xs) ==
    LET t == Len(xs) w == LastK(xs, N) IN
    IF t = 0 THEN RAny
    ELSE LET x == Last(xs)
             v == IF QIsZero(WVar(w)) THEN RQ(x) ELSE RF(SignedSqrt(x, WVar(w)))
         IN  IF t >= N THEN v ELSE (IF v[1] = "q" THEN ROQ(v[2]) ELSE ROF(v[2]))

Vsct_Def(N, xs) ==
    LET t == Len(xs) w == LastK(xs, N) IN
    IF t = 0 THEN RAny
    ELSE LET x == Last(xs)
             v == IF QIsZero(WVar(w)) THEN RQ(QZero) ELSE RF(SignedSqrt(QSub(x, QMean(w)), WVar(w)))
         IN  IF t >= N THEN v ELSE (IF v[1] = "q" THEN ROQ(v[2]) ELSE ROF(v[2]))

HLNormalizer_Def(N, xs) ==
    IF Len(xs) = 0 THEN RAny
    ELSE LET w == LastK(xs, N) lo == QMinSeq(w) hi == QMaxSeq(w) x == Last(xs) IN
         IF QEq(lo, hi) THEN RQ(QZero)
         ELSE RQ(QSub(QDiv(QMul(Two, QSub(x, lo)), QSub(hi, lo)), QOne))

(* base = x_{t-N} once more than N values exist, the first value before; the previous output is
   held while the base is 0 *)
RECURSIVE Roc_Def(_, _)
Roc_Def(N, xs) ==
    LET t == Len(xs) IN
    IF t = 0 THEN RNone
    ELSE LET b == IF t > N THEN xs[t - N] ELSE xs[1] IN
         IF QIsZero(b) THEN Roc_Def(N, Front(xs))
         ELSE RQ(QDiv(QMul(Hund, QSub(xs[t], b)), b))

NonNeg(q) == QSign(q) >= 0
(* p in (0,1) as exact rational -> binary entropy in bits *)
EntropyF(p) == LET pf == FFromQ(p) qf == FSub(FOne, pf) IN
               FNeg(FAdd(FMul(pf, FLog2(pf)), FMul(qf, FLog2(qf))))
BinaryEntropy_Def(N, xs) ==
    IF Len(xs) = 0 THEN RAny
    ELSE LET w == LastK(xs, N) k == Count(w, NonNeg) n == Len(w) IN
         IF k = 0 \/ k = n THEN RQ(QZero) ELSE RF(EntropyF(QFrac(k, n)))

(* changes d_i = x_i - x_{i-1} (d_1 = 0) for i = t-n+1 .. t, n = min(t, N) *)
Changes(N, xs) ==
    LET t == Len(xs) n == IF t < N THEN t ELSE N IN
    Force([j \in 1..n |-> LET i == t - n + j IN IF i = 1 THEN QZero ELSE QSub(xs[i], xs[i - 1])])
PosPart(q) == IF QSign(q) > 0 THEN q ELSE QZero
NegPart(q) == IF QSign(q) < 0 THEN QNeg(q) ELSE QZero
Gains(d)  == QSum([i \in 1..Len(d) |-> PosPart(d[i])])
Losses(d) == QSum([i \in 1..Len(d) |-> NegPart(d[i])])

Rsi_Def(N, xs) ==
    IF Len(xs) < N \/ Len(xs) = 0 THEN RAny
    ELSE LET d == Changes(N, xs) g == Gains(d) l == Losses(d) IN
         IF QIsZero(l) THEN RQ(Hund) ELSE RQ(QDiv(QMul(Hund, g), QAdd(g, l)))

MyRSI_Def(N, xs) ==
    IF Len(xs) < N \/ Len(xs) = 0 THEN RAny
    ELSE LET d == Changes(N, xs) g == Gains(d) l == Losses(d) IN
         IF QIsZero(QAdd(g, l)) THEN (IF Len(xs) = N THEN RAny ELSE RHold)
         ELSE RQ(QDiv(QSub(g, l), QAdd(g, l)))

(* Pearson correlation of the N windowed values with their time index 0..N-1 *)
CTI_Def(N, xs) ==
    IF Len(xs) < N \/ N = 0 THEN RAny
    ELSE LET w == LastK(xs, N)
             n == QInt(N)
             sx  == QSum(w)
             sxx == QSumSq(w)
             sy  == QInt(ISum([i \in 1..N |-> i - 1]))
             syy == QInt(ISum([i \in 1..N |-> (i - 1) * (i - 1)]))
             sxy == QSum([i \in 1..N |-> QScale(i - 1, w[i])])
             vx  == QSub(QMul(n, sxx), QSq(sx))
             vy  == QSub(QMul(n, syy), QSq(sy))
             cov == QSub(QMul(n, sxy), QMul(sx, sy))
         IN  IF QSign(vx) <= 0 \/ QSign(vy) <= 0 THEN RQ(QZero)
             ELSE RF(SignedSqrt(cov, QMul(vx, vy)))        \* sign(cov) sqrt(cov^2 / (vx vy)): unit-free

SgnQ(q) == QSign(q)
(* Kendall's tau between the values in the window and time: all n(n-1)/2 pairs, ties contribute 0 *)
NET_Def(N, xs) ==
    IF Len(xs) < N \/ N < 2 THEN RAny
    ELSE LET w == LastK(xs, N) n == Len(w)
             s == ISum([i \in 1..n |-> ISum([j \in 1..n |-> IF j > i THEN SgnQ(QSub(w[j], w[i])) ELSE 0])])
         IN  RQ(QFrac(2 * s, n * (n - 1)))

(* (n+1)/2 - sum_k k x_(t-k+1) / sum_k x_(t-k+1), k = 1 newest *)
CoG_Def(N, xs) ==
    IF Len(xs) < N \/ Len(xs) = 0 THEN RAny
    ELSE LET w == LastK(xs, N) n == Len(w)
             den == QSum(w)
             num == QSum([i \in 1..n |-> QScale(n - i + 1, w[i])])
         IN  IF QIsZero(den) THEN RQ(QZero)
             ELSE RQ(QSub(QFrac(n + 1, 2), QDiv(num, den)))

-----------------------------------------------------------------------------
(* rolling (whole history) *)

PopVar(xs) == IF Len(xs) <= 1 THEN QZero ELSE QDiv(QSS(xs), QInt(Len(xs)))
WelfordRolling_Def(xs) == IF Len(xs) = 0 THEN RAny ELSE RSq(PopVar(xs))
WelfordRollingMean_Def(xs) == IF Len(xs) = 0 THEN RAny ELSE RQ(QMean(xs))
WelfordRollingVar_Def(xs) == IF Len(xs) = 0 THEN RAny ELSE RQ(PopVar(xs))

RECURSIVE DDFrom(_, _, _, _)
DDFrom(xs, j, peak, best) ==
    IF j > Len(xs) THEN best
    ELSE LET p == QMax(peak, xs[j])
             dd == QDiv(QSub(p, xs[j]), p)
         IN  DDFrom(xs, j + 1, p, QMax(best, dd))
(* positive inputs *)
Drawdown_Def(xs) == IF Len(xs) = 0 THEN RAny ELSE RQ(DDFrom(xs, 1, xs[1], QZero))

LnReturn_Def(xs) ==
    LET t == Len(xs) IN
    IF t < 2 THEN RAny ELSE RF(FLn(FFromQ(QDiv(xs[t], xs[t - 1]))))

-----------------------------------------------------------------------------
(* pure functions *)

Echo_Def(xs) == IF Len(xs) = 0 THEN RAny ELSE RQ(Last(xs))
GTE_Def(c, xs) == IF Len(xs) = 0 THEN RAny ELSE RQ(QMax(Last(xs), c))
LTE_Def(c, xs) == IF Len(xs) = 0 THEN RAny ELSE RQ(QMin(Last(xs), c))
Tanh_Def(xs) == IF Len(xs) = 0 THEN RAny
                ELSE IF QIsZero(Last(xs)) THEN RQ(QZero) ELSE RF(FTanh(FFromQ(Last(xs))))

-----------------------------------------------------------------------------
(* moving averages with a recurrence / kernel (C04) *)

(* e_1 = x_1, e_t = w x_t + (1-w) e_(t-1), w = alpha/(N+1) *)
RECURSIVE EmaFrom(_, _, _, _)
EmaFrom(xs, i, w, e) == IF i > Len(xs) THEN e
                        ELSE EmaFrom(xs, i + 1, w, QNorm(QAdd(QMul(w, xs[i]), QMul(QSub(QOne, w), e))))
Ema_Def(N, alpha, xs) ==
    IF Len(xs) = 0 THEN RAny
    ELSE LET w == QDiv(alpha, QInt(N + 1))
             e == EmaFrom(xs, 2, w, xs[1])
         IN  IF Len(xs) >= N THEN RQ(e) ELSE ROQ(e)

(* normalised Gaussian kernel, k = 0 .. N-1 oldest -> newest, centre offset (N+1), width N/sigma.
   Weights are taken relative to the largest one (the normalisation cancels it), so that a narrow
   kernel does not underflow the 20 fixed-point decimals.  The kernel clause speaks about a full
   window; before that the properties only constrain Alma through the interval/constant clauses. *)
AlmaExpo(N, k, sigma, offset) ==
    LET m == QMul(offset, QInt(N + 1))
        s == QDiv(QInt(N), sigma)
    IN  QDiv(QSq(QSub(QInt(k - 1), m)), QMul(Two, QSq(s)))
AlmaWeights(N, sigma, offset) ==
    LET es == Force([k \in 1..N |-> AlmaExpo(N, k, sigma, offset)])
        e0 == QMinSeq(es)
    IN  Force([k \in 1..N |-> FExp(FFromQ(QSub(e0, es[k])))])
RECURSIVE FDotFrom(_, _, _)
FDotFrom(ws, w, i) == IF i > Len(ws) THEN FZero ELSE FAdd(FMul(ws[i], FFromQ(w[i])), FDotFrom(ws, w, i + 1))
RECURSIVE FSumFrom(_, _)
FSumFrom(ws, i) == IF i > Len(ws) THEN FZero ELSE FAdd(ws[i], FSumFrom(ws, i + 1))
(* with the kernel weights ws already evaluated (they depend on N, sigma, offset only) *)
Alma_DefW(N, ws, xs) ==
    IF Len(xs) < N \/ Len(xs) = 0 THEN RAny
    ELSE LET w == LastK(xs, N) IN
         IF AllEqual(w) THEN RQ(w[1])
         ELSE RF(FDiv(FDotFrom(ws, w, 1), FSumFrom(ws, 1)))
Alma_Def(N, sigma, offset, xs) ==
    IF Len(xs) < N \/ Len(xs) = 0 THEN RAny ELSE Alma_DefW(N, AlmaWeights(N, sigma, offset), xs)
=============================================================================
