------------------------------ MODULE MC_Model ------------------------------
(***************************************************************************)
(* Invariant family 1 (DESIGN.md 3.2): the implementation-shaped machines  *)
(* of Machines.tla against the definitions of Defs/DefsR, over every       *)
(* history of the scope - a statement about the DESIGN of the incremental  *)
(* algorithms (running sums down-dated correctly, stale extrema rescanned, *)
(* warm-up counters, index arithmetic), independent of the code.  Also at  *)
(* the model level: no machine ever "panics" (usize underflow, empty       *)
(* unwrap) for a window length >= 1 (C15), and the number of buffered      *)
(* scalars stays under CellBound (C18).                                    *)
(***************************************************************************)
EXTENDS Machines, Tally, Json, IOUtils, TLC

Scope  == JsonDeserialize(IOEnv.SCOPE)
Cfgs   == Scope.cfgs
Alpha  == Scope.alphabet
A      == Len(Alpha)
Unit   == Scope.unit
MaxLen == Scope.maxlen

VARIABLES c, hist, idx, st, pout
vars == <<c, hist, idx, st, pout>>

Init == /\ c \in 1..Len(Cfgs) /\ hist = <<>> /\ idx = 0
        /\ st = TM_Init(Cfgs[c]) /\ pout = <<"n">>
Update(a) == /\ Len(hist) < MaxLen
             /\ hist' = Append(hist, Alpha[a])
             /\ idx' = idx * A + (a - 1)
             /\ st' = TM_Step(Cfgs[c], st, QFrac(Alpha[a], Unit))
             /\ pout' = TM_Out(Cfgs[c], st)
             /\ UNCHANGED c
Next == \E a \in 1..A : Update(a)

Cfg == Cfgs[c]
Raw == Force([i \in 1..Len(hist) |-> QFrac(IF hist[i] = 2147483647 THEN 0 ELSE hist[i], Unit)])   \* 2147483647: the symbol fed as -0.0
Tiny == WPow10(5)                    \* 1e-15 in fixed point: the machines and the definitions are both 20-decimal

SameVal(mo, r) ==
    CASE r[1] \in {"q", "oq"} -> IF mo[1] = "q" THEN QEq(mo[2], r[2]) ELSE WCmp(WAbs(WSub(VF(mo), FFromQ(r[2]))), Tiny) <= 0
      [] r[1] \in {"f", "of", "f2"} -> WCmp(WAbs(WSub(VF(mo), r[2])), Tiny) <= 0
      [] r[1] \in {"sq", "osq"} -> IF mo[1] = "sq" THEN QEq(mo[2], r[2]) ELSE QEq(QSq(VQ(mo)), r[2])
Agrees(mo, r) ==
    CASE r[1] = "any" \/ mo = MUndef -> TRUE
      [] r[1] = "n" -> mo = MNone
      [] r[1] = "hold" -> mo = pout
      [] r[1] \in {"oq", "of", "osq"} -> mo = MNone \/ SameVal(mo, r)
      [] OTHER -> mo # MNone /\ SameVal(mo, r)

RECURSIVE ModelCellBound(_)
ModelCellBound(node) ==
    LET n == IF HasField(node, "n") THEN node.n ELSE 1
        own == CASE node.k = "Alma" -> 3 * n [] node.k = "LaguerreFilter" -> 8 [] node.k = "LaguerreRSI" -> 12
                 [] node.k = "CyberCycle" -> 10 [] node.k = "EhlersFisherTransform" -> n + 2 [] OTHER -> n
        kids == IF HasField(node, "c") THEN node.c ELSE <<>>
    IN  own + (IF kids = <<>> THEN 0 ELSE ModelCellBound(kids[1]) + (IF Len(kids) > 1 THEN ModelCellBound(kids[2]) ELSE 0))

Report(clause) ==
    /\ Tally("viol")
    /\ \/ ~TallyUpTo("print." \o ToString(c) \o "." \o clause, 10)
       \/ PrintT(<<"VIOL", "MODEL", clause, c, Len(hist), idx>>)

(* long scopes that only concern index arithmetic and buffer sizes skip the (quadratic) definition *)
WithDef == "nodef" \notin DOMAIN Scope
DefOK == LET r == TreeDef(Cfg, Raw) mo == TM_Out(Cfg, st) IN
         /\ Tally("def." \o r[1])
         /\ (Agrees(mo, r) \/ Report("machine-differs-from-definition"))
Verdict == /\ Tally("states")
           /\ (~WithDef \/ DefOK)
           /\ (~TM_Panicked(Cfg, st) \/ Report("machine-panics"))
           /\ (TM_Cells(Cfg, st) <= ModelCellBound(Cfg) \/ Report("cells-above-bound"))
Post == TallyDump(TLCGet("stats").generated)
=============================================================================
