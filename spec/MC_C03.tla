------------------------------- MODULE MC_C03 -------------------------------
(***************************************************************************)
(* C03: finite memory.  Two real runs of the same view are started with    *)
(* DIFFERENT prefixes (different lengths, large magnitudes) and then fed   *)
(* the same suffix; the product explores every suffix over the alphabet.   *)
(* Once K(view, N) common values have been delivered the two answers must  *)
(* agree up to rounding, unless the view is explicitly holding its         *)
(* previous output (MyRSI on a flat window, Roc on a zero base).           *)
(***************************************************************************)
EXTENDS Prod

Tab2 == ndJsonDeserialize(IOEnv.TABLE2)
ObsB == Tab2[(c - 1) * (MaxLen + 1) + Len(hist) + 1].o[idx + 1]
ObsA == ObsNow

(* memory length stated by the property *)
K(node) ==
    CASE node.k \in {"Rsi", "MyRSI", "Roc"} -> node.n + 1
      [] node.k = "Alma" -> 2 * node.n
      [] node.k = "PolarizedFractalEfficiency" -> node.n + node.c[2].n - 1
      [] OTHER -> node.n

(* the two documented holds: the defining ratio of the common window is 0/0 *)
Holding ==
    LET w == LastK(Raw, K(Cfg)) IN
    \/ (Cfg.k = "MyRSI" /\ AllEqual(w))
    \/ (Cfg.k = "Roc" /\ Len(w) > Cfg.n /\ QIsZero(w[Len(w) - Cfg.n]))

(* rounding noise granted by the statement: proportional to the largest magnitude seen *)
Noise == QMul(IF "eps" \in DOMAIN Scope THEN QFrac(Scope.eps[1], Scope.eps[2]) ELSE QPow10Neg(9), QInt(Scope.maxmag))     \* eps: 1e-5 for f32

AgreeOK ==
    \/ Len(hist) < K(Cfg)
    \/ Holding
    \/ (/\ Tally("agree")
        /\ IF OIsSome(ObsA) /\ OIsSome(ObsB) THEN QClose(OQ(ObsA), OQ(ObsB), QMul(Noise, QMax(QOne, QAbs(OQ(ObsA)))))
           ELSE ObsA[1] = ObsB[1])

Verdict == /\ Tally("states")
           /\ (AgreeOK \/ Report("C03", "suffix-determines-output"))
=============================================================================
