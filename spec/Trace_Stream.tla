---------------------------- MODULE Trace_Stream ----------------------------
(***************************************************************************)
(* Pipeline P3: traces RECORDED from the real crate on long / adversarial  *)
(* streams, validated line by line against the specification.              *)
(*                                                                         *)
(* A trace is a sequence of streams; a header line                          *)
(*    {"cfg":..., "unit":u, "mode":m, "eps":[n,d]}                         *)
(* starts a stream, every further line {"xs":[k inputs], "o":obs} gives    *)
(* the inputs fed since the previous line and the answer after the last of  *)
(* them.  The ghost state is what the DEFINITION needs and no more:        *)
(*   mode "full"     the whole history (short streams, any view)           *)
(*   mode "window"   the last K(view, N) inputs (windowed views)           *)
(*   mode "rolling"  exact running sums / peak (whole-history views)       *)
(*   mode "machine"  the state of the implementation-shaped machine        *)
(*                   (Machines.tla, model-checked against the definitions  *)
(*                   on small scopes by MC_Model): long streams at large   *)
(*                   N for the recursive views                             *)
(* so a 10^6-step stream costs the window per event, not the history.      *)
(* C13 (rolling statistics on long streams) and C16 (f64 / f32 answers     *)
(* track the exact ones within eps x natural scale; flat-after-volatile)    *)
(* are decided here.                                                       *)
(***************************************************************************)
EXTENDS Machines, Ranges, IEEE, Tally, Json, IOUtils, TLC

Rec  == ndJsonDeserialize(IOEnv.TRACE)
Prop == IOEnv.PROP

VARIABLES l,        \* next line to consume
          hd,       \* header of the current stream
          win,      \* ghost: window / history of raw inputs (integers in units of 1/unit)
          agg,      \* ghost: exact running aggregates for rolling views
          cnt,      \* inputs consumed in this stream
          maxabs,   \* largest |input| of this stream (in units of 1/unit)
          cur, prv, \* the answer on the line just consumed, and the one before
          curm,     \* the mean() getter recorded on that line (<<"n">> if not recorded)
          mst,      \* ghost: machine state (mode "machine")
          pos,      \* ghost: all inputs of this stream so far were positive
          aux,      \* ghost: data that depends on the configuration only (Alma kernel weights), evaluated once per stream
          gap,      \* number of inputs consumed by the last line (answers in between were not recorded if > 1)
          ext,      \* ghost: <<smallest, largest>> input of this stream (what Ema averages), <<>> before the first
          sid       \* stream number
vars == <<l, hd, win, agg, cnt, maxabs, cur, prv, curm, mst, pos, aux, gap, ext, sid>>

KMem(cfg, mode) == IF mode \in {"range", "interval"} THEN (IF HasField(cfg, "n") THEN cfg.n ELSE 1)
                   ELSE IF mode # "window" THEN 1000000000
                   ELSE IF cfg.k \in {"Rsi", "MyRSI", "Roc"} THEN cfg.n + 1 ELSE cfg.n

AbsI(x) == IF x < 0 THEN -x ELSE x
(* streams whose inputs are pairs <<m, e>> = (m / unit) * 2^e (dynamic ranges beyond 31-bit integers; modes range / interval only) *)
Pairs(h) == h # <<>> /\ "pairs" \in DOMAIN h
PairQ(x, u) == IF x[2] >= 0 THEN QMul(QFrac(x[1], u), <<Pow2(x[2]), WOne>>) ELSE QMul(QFrac(x[1], u), <<WOne, Pow2(-x[2])>>)
RECURSIVE QExtFold(_, _, _, _)
QExtFold(e, xs, i, u) == IF i > Len(xs) THEN e
                        ELSE LET q == PairQ(xs[i], u) IN
                             QExtFold(IF e = <<>> THEN <<q, q>> ELSE <<QMin(e[1], q), QMax(e[2], q)>>, xs, i + 1, u)
RECURSIVE ExtFold(_, _, _)
ExtFold(e, xs, i) == IF i > Len(xs) THEN e
                     ELSE ExtFold(IF e = <<>> THEN <<xs[i], xs[i]>>
                                  ELSE <<IF xs[i] < e[1] THEN xs[i] ELSE e[1], IF xs[i] > e[2] THEN xs[i] ELSE e[2]>>, xs, i + 1)
RECURSIVE MaxAbsSeq(_, _, _)
MaxAbsSeq(xs, i, m) == IF i > Len(xs) THEN m ELSE MaxAbsSeq(xs, i + 1, IF AbsI(xs[i]) > m THEN AbsI(xs[i]) ELSE m)

(* exact running aggregates: <<n, sum, sum of squares, peak, max drawdown (rational), previous, last>> *)
AggInit == <<0, WZero, WZero, WZero, QZero, 0, 0>>
RECURSIVE AggFold(_, _, _)
AggFold(a, xs, i) ==
    IF i > Len(xs) THEN a
    ELSE LET x == WFromInt(xs[i])
             pk == IF a[1] = 0 THEN x ELSE WMax(a[4], x)
             dd == IF pk[1] = 0 THEN QZero ELSE <<WSub(pk, x), pk>>
         IN  AggFold(<<a[1] + 1, WAdd(a[2], x), WAdd(a[3], WMul(x, x)), pk, QMax(a[5], dd), a[7], xs[i]>>, xs, i + 1)

RECURSIVE MFold(_, _, _, _)
MFold(cfg, m, xs, i) == IF i > Len(xs) THEN m ELSE MFold(cfg, TM_Step(cfg, m, QFrac(xs[i], hd.unit)), xs, i + 1)

Init == /\ l = 1 /\ hd = <<>> /\ win = <<>> /\ agg = AggInit /\ cnt = 0 /\ maxabs = 0
        /\ cur = <<"n">> /\ prv = <<"n">> /\ curm = <<"n">> /\ aux = <<>> /\ mst = <<>> /\ pos = TRUE /\ gap = 0 /\ ext = <<>> /\ sid = 0

IsHeader(e) == "cfg" \in DOMAIN e
Next == /\ l <= Len(Rec)
        /\ l' = l + 1
        /\ LET e == Rec[l] IN
           IF IsHeader(e)
           THEN /\ hd' = e /\ win' = <<>> /\ agg' = AggInit /\ cnt' = 0 /\ maxabs' = 0
                /\ cur' = <<"n">> /\ prv' = <<"n">> /\ curm' = <<"n">> /\ gap' = 0 /\ sid' = sid + 1
                /\ mst' = IF e.mode = "machine" THEN TM_Init(e.cfg) ELSE <<>>
                /\ pos' = TRUE /\ ext' = <<>>
                /\ aux' = IF e.cfg.k = "Alma" /\ e.mode = "window" THEN AlmaWeights(e.cfg.n, SigmaOf(e.cfg), OffsetOf(e.cfg)) ELSE <<>>
           ELSE /\ win' = LastK(win \o e.xs, KMem(hd.cfg, hd.mode))
                /\ agg' = IF hd.mode = "rolling" THEN AggFold(agg, e.xs, 1) ELSE agg
                /\ cnt' = cnt + Len(e.xs)
                /\ maxabs' = IF Pairs(hd) THEN maxabs ELSE MaxAbsSeq(e.xs, 1, maxabs)
                /\ cur' = e.o /\ prv' = cur /\ gap' = Len(e.xs)
                /\ curm' = IF "m" \in DOMAIN e THEN e.m ELSE <<"n">>
                /\ mst' = IF hd.mode = "machine" THEN MFold(hd.cfg, mst, e.xs, 1) ELSE mst
                /\ pos' = IF Pairs(hd) THEN (pos /\ \A i \in 1..Len(e.xs) : e.xs[i][1] > 0) ELSE (pos /\ \A i \in 1..Len(e.xs) : e.xs[i] > 0)
                /\ ext' = IF Pairs(hd) THEN QExtFold(ext, e.xs, 1, hd.unit) ELSE ExtFold(ext, e.xs, 1)
                /\ UNCHANGED <<hd, sid, aux>>

-----------------------------------------------------------------------------
U == hd.unit
XQ(w) == Force([i \in 1..Len(w) |-> QFrac(w[i], U)])

RollingDef(cfg) ==
    LET n == agg[1] IN
    IF n = 0 THEN RAny
    ELSE CASE cfg.k = "WelfordRolling" ->
                 \* population variance (n s2 - s1^2) / (n^2 unit^2)
                 RSq(<<WSub(WMul(WFromInt(n), agg[3]), WMul(agg[2], agg[2])), WMul(WMul(WFromInt(n), WFromInt(n)), WMul(WFromInt(U), WFromInt(U)))>>)
           [] cfg.k = "Drawdown" -> RQ(agg[5])
           [] cfg.k = "LnReturn" -> IF n < 2 THEN RAny ELSE RF(FLn(FFromQ(QFrac(agg[7], agg[6]))))
           [] OTHER -> RAny

WindowDef(cfg, w) ==
    IF cfg.k = "Roc" /\ Len(w) > 0 /\ QIsZero(IF Len(w) > cfg.n THEN w[Len(w) - cfg.n] ELSE w[1]) THEN RHold
    ELSE IF cfg.k = "Alma" THEN Alma_DefW(cfg.n, aux, w)
    ELSE KindDef(cfg, w)

Expected == CASE hd.mode = "full"    -> TreeDef(hd.cfg, XQ(win))
              [] hd.mode = "window"  -> WindowDef(hd.cfg, XQ(win))
              [] hd.mode = "rolling" -> RollingDef(hd.cfg)
              [] hd.mode = "machine" -> LET mo == TM_Out(hd.cfg, mst) IN IF mo = MUndef THEN RAny ELSE mo
              [] hd.mode \in {"range", "interval", "nopanic", "alive"} -> RAny

(* natural scale of an output: width of the range for bounded indicators, largest input magnitude otherwise *)
Scale(cfg, want) ==
    LET mag == QMax(QOne, QFrac(maxabs, U)) IN
    CASE cfg.k = "Rsi" -> QInt(100)
      [] cfg.k \in {"MyRSI", "HLNormalizer", "CorrelationTrendIndicator", "NoiseEliminationTechnology"} -> QInt(2)
      [] cfg.k = "Vsct" -> FToQ(FDiv(FFromInt(2 * (cfg.n - 1)), FSqrt(FFromInt(cfg.n))))      \* width of [-(N-1)/sqrt N, (N-1)/sqrt N]
      [] cfg.k \in {"BinaryEntropy", "LaguerreRSI", "Drawdown", "LnReturn"} -> QOne
      [] cfg.k \in {"Vst", "Roc", "CenterOfGravity"} -> QMax(mag, QAbs(want))
      [] OTHER -> mag
(* tolerance factor: eps = [num, den], or epsp = k for 10^-k (TLC integers are 32-bit) *)
Eps == IF "epsp" \in DOMAIN hd THEN QPow10Neg(hd.epsp) ELSE QFrac(hd.eps[1], hd.eps[2])

(* |obs - expected| <= eps * scale *)
Within(o, r) ==
    CASE r[1] = "any"  -> TRUE
      [] r[1] = "n"    -> OIsNone(o)
      [] r[1] = "hold" -> gap # 1 \/ OSameValue(o, prv)      \* "keeps its previous answer" needs the previous answer on record
      [] r[1] \in {"q", "oq"} -> (r[1] = "oq" /\ OIsNone(o)) \/ OCloseQ(o, r[2], QMul(Eps, Scale(hd.cfg, r[2])))
      [] r[1] \in {"f", "of"} -> (r[1] = "of" /\ OIsNone(o)) \/ OCloseQ(o, FToQ(r[2]), QMul(Eps, Scale(hd.cfg, FToQ(r[2]))))
      [] r[1] = "f2"   -> OCloseQ(o, FToQ(r[2]), QMul(Eps, Scale(hd.cfg, FToQ(r[2])))) \/ OCloseQ(o, FToQ(r[3]), QMul(Eps, Scale(hd.cfg, FToQ(r[3]))))
      [] r[1] \in {"sq", "osq"} -> (r[1] = "osq" /\ OIsNone(o))
                                  \/ LET sd == FToQ(FSqrt(FFromQ(r[2]))) IN OCloseQ(o, sd, QMul(Eps, Scale(hd.cfg, sd)))

Report(clause) == /\ Tally("viol")
                  /\ \/ ~TallyUpTo("print." \o ToString(sid), 5)
                     \/ PrintT(<<"VIOL", Prop, clause, sid, l - 1, cnt>>)

(* the mean() getter of the Welford views, where it was recorded *)
MeanExpected == IF hd.mode = "rolling" /\ agg[1] > 0 THEN RQ(<<agg[2], WMul(WFromInt(agg[1]), WFromInt(U))>>)
                ELSE IF hd.mode = "window" /\ win # <<>> THEN RQ(QMean(XQ(LastK(win, hd.cfg.n))))
                ELSE RAny
MeanVerdict == \/ ~OIsSome(curm)
               \/ (Tally("mean") /\ LET r == MeanExpected IN
                                     r[1] = "any" \/ OCloseQ(curm, r[2], QMul(Eps, QMax(QOne, QFrac(maxabs, U)))))
               \/ Report("mean-tracks-exact")

(* C07 on recorded streams: the range predicate of Ranges.tla on every recorded answer *)
RangeVerdict == \/ ~OIsSome(cur)
                \/ (Tally("range." \o hd.cfg.k) /\ RangeOf(hd.cfg, cur, IF gap = 1 THEN prv ELSE <<"n">>, pos))
                \/ Report("range")

(* C04 / C07 on recorded streams: an average stays inside the closed interval of the values it averages (Sma, Alma: the window,
   i.e. Min <= Sma, Alma <= Max; Ema: every value so far), "up to a few ulps of the bound itself, never by more".  The answer is
   decoded exactly from its bit key; the slack covers the rounding of the inputs x/unit themselves and of the N additions. *)
AvgBounds == IF HasField(hd.cfg, "c") \/ ext = <<>> THEN <<FALSE, QZero, QZero>>
             ELSE IF hd.cfg.k \in {"Sma", "Alma"} THEN
                  (IF Pairs(hd) THEN LET e == QExtFold(<<>>, LastK(win, hd.cfg.n), 1, U) IN <<TRUE, e[1], e[2]>>
                   ELSE LET e == ExtFold(<<>>, LastK(win, hd.cfg.n), 1) IN <<TRUE, QFrac(e[1], U), QFrac(e[2], U)>>)
             ELSE IF hd.cfg.k = "Ema" THEN (IF Pairs(hd) THEN <<TRUE, ext[1], ext[2]>> ELSE <<TRUE, QFrac(ext[1], U), QFrac(ext[2], U)>>)
             ELSE <<FALSE, QZero, QZero>>
IntervalOK(o) ==
    LET b == AvgBounds IN
    \/ ~b[1]
    \/ LET lo == b[2] hi == b[3] v == KeyQ(OKey(o))
           ulps == <<WFromInt((IF HasField(hd.cfg, "n") THEN hd.cfg.n ELSE 1) + 8), P52>>
       IN  /\ Tally("interval." \o hd.cfg.k)
           /\ QLe(QSub(lo, QMul(ulps, QAbs(lo))), v) /\ QLe(v, QAdd(hi, QMul(ulps, QAbs(hi))))
IntervalVerdict == ~OIsSome(cur) \/ IntervalOK(cur) \/ Report(IF hd.mode = "range" THEN "range-order" ELSE "interval")

Verdict == \/ hd = <<>> \/ cnt = 0
           \/ /\ Tally("events")
              /\ IF hd.mode = "range" THEN RangeVerdict /\ IntervalVerdict
                 ELSE IF hd.mode = "interval" THEN IntervalVerdict
                 ELSE IF hd.mode = "nopanic" THEN (~OIsPanic(cur) /\ Tally("nopanic")) \/ Report("panic")
                 ELSE IF hd.mode = "alive" THEN
                      \* very long streams (beyond 2^16 updates), answers sampled: no panic, finite, readiness never reverts
                      /\ Tally("alive")
                      /\ (~OIsPanic(cur) \/ Report("panic"))
                      /\ (~OIsNonFinite(cur) \/ Report("non-finite"))
                      /\ (~OIsValue(prv) \/ OIsValue(cur) \/ OIsPanic(cur) \/ Report("readiness-reverted"))
                 ELSE LET r == Expected IN
                      /\ Tally("def." \o r[1])
                      /\ (Within(cur, r) \/ Report("tracks-exact"))
                      /\ MeanVerdict

Post == /\ TallyDump(TLCGet("stats").generated)
        /\ TLCGet("stats").diameter = Len(Rec) + 1
=============================================================================
