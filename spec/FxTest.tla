------------------------------- MODULE FxTest -------------------------------
(* Self test of the Fx series against 50-digit references (lib/gen_fx_vectors.py).
   Allowed error: 200 units of 10^-20 absolute, or 10^-18 relative for results above 1. *)
EXTENDS Fx, Json, IOUtils, TLC

Vec == ndJsonDeserialize(IOEnv.FVEC)
Tol(y) == WMax(WFromInt(200), WDiv(WAbs(y), WPow10(18)))
Val(v) == CASE v.f = "exp"  -> FExp(v.x)
            [] v.f = "cos"  -> FCos(v.x)
            [] v.f = "sin"  -> FSin(v.x)
            [] v.f = "tanh" -> FTanh(v.x)
            [] v.f = "ln"   -> FLn(v.x)
            [] v.f = "sqrt" -> FSqrt(v.x)
            [] v.f = "log2" -> FLog2(v.x)
Check(i) == LET v == Vec[i] r == Val(v) IN
            Assert(WCmp(WAbs(WSub(r, v.y)), Tol(v.y)) <= 0, <<"Fx", v.f, i, v.x, r, v.y>>)
ASSUME \A i \in 1..Len(Vec) : Check(i)
ASSUME FMul(FFrac(1, 3), FFromInt(3)) = WSub(FOne, WOne) /\ FDiv(FFromInt(-1), FFromInt(3)) = WNeg(FFrac(1, 3))
ASSUME PrintT(<<"FxTest", "vectors", Len(Vec), "ok">>)
=============================================================================
