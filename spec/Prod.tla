-------------------------------- MODULE Prod --------------------------------
(***************************************************************************)
(* Pipeline P1: the product of the specification with the implementation's *)
(* complete behaviour tree over a scope.                                   *)
(*                                                                         *)
(* The scope (configurations, alphabet, unit, maximal history length) is   *)
(* one JSON file read by both sides.  The harness has run the REAL view on *)
(* every input sequence of the scope and dumped every observation; TLC     *)
(* walks the same tree (one Update action per alphabet symbol), carries    *)
(* the history, and the MC_Cxx modules state the property as an invariant  *)
(* evaluated in every state against the observation at that node.          *)
(***************************************************************************)
EXTENDS Tree, Tally, Json, IOUtils, TLC

Scope  == JsonDeserialize(IOEnv.SCOPE)
Tab    == ndJsonDeserialize(IOEnv.TABLE)
Cfgs   == Scope.cfgs
Alpha  == Scope.alphabet
A      == Len(Alpha)
Unit   == Scope.unit
MaxLen == Scope.maxlen

VARIABLES c,      \* index of the configuration under test
          hist,   \* the raw inputs so far (integers in units of 1/Unit)
          idx     \* position of this history in the implementation table
vars == <<c, hist, idx>>

Init == /\ c \in 1..Len(Cfgs)
        /\ hist = <<>>
        /\ idx = 0

Update(a) == /\ Len(hist) < MaxLen
             /\ hist' = Append(hist, Alpha[a])
             /\ idx' = idx * A + (a - 1)
             /\ UNCHANGED c

Next == \E a \in 1..A : Update(a)

Cfg == Cfgs[c]
Line(ci, l) == Tab[(ci - 1) * (MaxLen + 1) + l + 1]
ObsAt(ci, l, ix) == Line(ci, l).o[ix + 1]
ObsNow  == ObsAt(c, Len(hist), idx)
ObsPrev == IF Len(hist) = 0 THEN <<"n">> ELSE ObsAt(c, Len(hist) - 1, idx \div A)
ObsInit == ObsAt(c, 0, 0)
ExtraNow(name) == Line(c, Len(hist)).x[idx + 1][name]
(* the input symbol 2147483647 is fed to the code as the IEEE value -0.0; as a number it is 0 *)
NegZero == 2147483647
Raw == Force([i \in 1..Len(hist) |-> QFrac(IF hist[i] = NegZero THEN 0 ELSE hist[i], Unit)])

(* tolerance of a value comparison: tolNum/tolDen absolute, scaled by max(1, |expected|) *)
TolQ(q, eps)  == QMul(eps, QMax(QOne, QAbs(q)))
TolF(f, epsF) == FMul(epsF, FMax(FOne, FAbs(f)))
Eps9  == QPow10Neg(9)
(* comparison tolerance of this scope: 1e-9 (exact small-integer inputs) unless the scope says otherwise *)
EpsQ  == IF "eps" \in DOMAIN Scope THEN QFrac(Scope.eps[1], Scope.eps[2]) ELSE Eps9
EpsF9 == FFromQ(Eps9)

(* o >= 0 and o^2 = q up to the tolerance *)
SqOK(o, q, eps) == OIsSome(o) /\ OSign(o) >= 0 /\ QClose(QSq(OQ(o)), q, TolQ(q, eps))

(* does the observation o (with predecessor prev) satisfy the definition's answer r ? *)
Matches(o, prev, r, eps) ==
    CASE r[1] = "any" \/ OIsReject(o) -> TRUE       \* a configuration its constructor refuses has no behaviour to judge
      [] r[1] = "n"    -> OIsNone(o)
      [] r[1] = "q"    -> OCloseQ(o, r[2], TolQ(r[2], eps))
      [] r[1] = "f"    -> OCloseF(o, r[2], TolF(r[2], FFromQ(eps)))
      [] r[1] = "f2"   -> OCloseF(o, r[2], TolF(r[2], FFromQ(eps))) \/ OCloseF(o, r[3], TolF(r[3], FFromQ(eps)))
      [] r[1] = "oq"   -> OIsNone(o) \/ OCloseQ(o, r[2], TolQ(r[2], eps))
      [] r[1] = "of"   -> OIsNone(o) \/ OCloseF(o, r[2], TolF(r[2], FFromQ(eps)))
      [] r[1] = "sq"   -> SqOK(o, r[2], eps)
      [] r[1] = "osq"  -> OIsNone(o) \/ SqOK(o, r[2], eps)
      [] r[1] = "hold" -> OSameValue(o, prev)

(* report without stopping the exploration: every violating state prints one line (capped) *)
Report(prop, clause) ==
    /\ Tally("viol")
    /\ \/ ~TallyUpTo("print." \o ToString(c) \o "." \o clause, 25)
       \/ PrintT(<<"VIOL", prop, clause, c, Len(hist), idx>>)

Post == TallyDump(TLCGet("stats").generated)
=============================================================================
