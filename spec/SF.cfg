INIT Init
NEXT Next
INVARIANT TypeOK
INVARIANT Emit
CHECK_DEADLOCK FALSE
