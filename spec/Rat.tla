-------------------------------- MODULE Rat ---------------------------------
(***************************************************************************)
(* Exact rationals <<num, den>> over Wide integers, den > 0.  Not          *)
(* normalised unless QNorm is applied: equality is QEq (cross              *)
(* multiplication), never `='.                                             *)
(***************************************************************************)
EXTENDS Wide

QInt(i)      == <<WFromInt(i), WOne>>
QFrac(i, u)  == IF u > 0 THEN <<WFromInt(i), WFromInt(u)>> ELSE <<WFromInt(-i), WFromInt(-u)>>
QZero        == <<WZero, WOne>>
QOne         == <<WOne, WOne>>
QNum(a)      == a[1]
QDen(a)      == a[2]
QSign(a)     == a[1][1]
QIsZero(a)   == a[1][1] = 0
QNeg(a)      == <<WNeg(a[1]), a[2]>>
QAbs(a)      == <<WAbs(a[1]), a[2]>>
QAdd(a, b)   == IF a[2] = b[2] THEN <<WAdd(a[1], b[1]), a[2]>>
                ELSE <<WAdd(WMul(a[1], b[2]), WMul(b[1], a[2])), WMul(a[2], b[2])>>
QSub(a, b)   == QAdd(a, QNeg(b))
QMul(a, b)   == <<WMul(a[1], b[1]), WMul(a[2], b[2])>>
(* b # 0 *)
QDiv(a, b)   == IF b[1][1] > 0 THEN <<WMul(a[1], b[2]), WMul(a[2], b[1])>>
                ELSE <<WNeg(WMul(a[1], b[2])), WNeg(WMul(a[2], b[1]))>>
QSq(a)       == QMul(a, a)
QCmp(a, b)   == IF a[2] = b[2] THEN WCmp(a[1], b[1]) ELSE WCmp(WMul(a[1], b[2]), WMul(b[1], a[2]))
QEq(a, b)    == QCmp(a, b) = 0
QLe(a, b)    == QCmp(a, b) <= 0
QLt(a, b)    == QCmp(a, b) < 0
QMax(a, b)   == IF QLe(a, b) THEN b ELSE a
QMin(a, b)   == IF QLe(a, b) THEN a ELSE b
QNorm(a)     == IF a[1][1] = 0 THEN QZero
                ELSE LET g == WGcd(a[1], a[2]) IN <<WDiv(a[1], g), WDiv(a[2], g)>>
(* |a - b| <= tol *)
QClose(a, b, tol) == QLe(QAbs(QSub(a, b)), tol)
(* small integer times rational *)
QScale(k, a) == <<WMul(WFromInt(k), a[1]), a[2]>>
(* 10^-k *)
QPow10Neg(k) == <<WOne, WPow10(k)>>
=============================================================================
