
