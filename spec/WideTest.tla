------------------------------ MODULE WideTest ------------------------------
(* Self test of Wide.tla against reference vectors computed with Python integers
   (lib/gen_wide_vectors.py).  Run once with Wide.class present (override) and once without. *)
EXTENDS Wide, Json, IOUtils, TLC

Vec == ndJsonDeserialize(IOEnv.WVEC)

Check(i) ==
    LET v == Vec[i] IN
    /\ Assert(WAdd(v.a, v.b) = v.add, <<"WAdd", i>>)
    /\ Assert(WSub(v.a, v.b) = v.sub, <<"WSub", i>>)
    /\ Assert(WMul(v.a, v.b) = v.mul, <<"WMul", i>>)
    /\ Assert(WCmp(v.a, v.b) = v.cmp, <<"WCmp", i>>)
    /\ Assert(v.b[1] = 0 \/ WDiv(v.a, v.b) = v.div, <<"WDiv", i>>)
    /\ Assert(WGcd(v.a, v.b) = v.gcd, <<"WGcd", i>>)
    /\ Assert(WISqrt(WAbs(v.a)) = v.sqrt, <<"WISqrt", i>>)
    /\ Assert(WIsCanonical(WMul(v.a, v.b)) /\ WIsCanonical(WSub(v.a, v.b)), <<"canonical", i>>)
    /\ Assert(v.b[1] = 0 \/ WMod(v.a, v.b) = WSub(v.a, WMul(v.b, v.div)), <<"WMod", i>>)

ASSUME \A i \in 1..Len(Vec) : Check(i)
ASSUME WFromInt(0) = WZero /\ WFromInt(-123456789) = <<-1, <<6789, 2345, 1>>>> /\ WFromInt(2147483647) = <<1, <<3647, 4748, 21>>>>
ASSUME WPow10(0) = WOne /\ WPow10(5) = <<1, <<0, 10>>>> /\ WPow10(12) = <<1, <<0, 0, 0, 1>>>>
ASSUME WToInt(WFromInt(-99999999)) = -99999999 /\ WShift(WFromInt(7), 2) = <<1, <<0, 0, 7>>>>
ASSUME PrintT(<<"WideTest", "vectors", Len(Vec), "ok">>)
=============================================================================
