-------------------------------- MODULE Obs ---------------------------------
(***************************************************************************)
(* Decoding of one logged observation of the implementation (DESIGN.md     *)
(* 3.3).  The harness writes, for a value returned by last():              *)
(*    <<"n">>                       None                                   *)
(*    <<"s", neg, limbs, exact, key>>  Some(v): limbs = round(|v| 10^12)   *)
(*                                  as Wide limbs, exact = 1 iff v 10^12   *)
(*                                  is that integer, key = order-          *)
(*                                  preserving 64-bit key of the f64 bits   *)
(*                                  in three 22/22/20-bit limbs            *)
(*    <<"nan">>  <<"inf", neg>>     non-finite Some                        *)
(*    <<"p">>                       the call (or an earlier update)        *)
(*                                  panicked                               *)
(*    <<"reject">>                  the constructor refused the config     *)
(* The specification never models IEEE rounding: observations are data.    *)
(***************************************************************************)
EXTENDS Fx

OIsNone(o)   == o[1] = "n"
OIsSome(o)   == o[1] = "s"
OIsPanic(o)  == o[1] = "p"
OIsReject(o) == o[1] = "reject"
OIsNonFinite(o) == o[1] = "nan" \/ o[1] = "inf"
(* Some(anything), finite or not *)
OIsValue(o)  == o[1] = "s" \/ o[1] = "nan" \/ o[1] = "inf"

OScale == WPow10(12)
(* the observed value as a wide integer in units of 10^-12 (sign of zero dropped) *)
OInt(o) == IF o[3] = <<>> THEN WZero ELSE <<IF o[2] = 1 THEN -1 ELSE 1, o[3]>>
(* ... as an exact rational / as Fx (10^20) *)
OQ(o) == <<OInt(o), OScale>>
OF(o) == WShift(OInt(o), 2)
OExact(o) == o[4] = 1
OKey(o) == o[5]
OSign(o) == OInt(o)[1]

KeyCmp(a, b) == IF a[1] # b[1] THEN (IF a[1] > b[1] THEN 1 ELSE -1)
                ELSE IF a[2] # b[2] THEN (IF a[2] > b[2] THEN 1 ELSE -1)
                ELSE IF a[3] # b[3] THEN (IF a[3] > b[3] THEN 1 ELSE -1) ELSE 0
(* distance in ulps is at most k (k < 2^20) *)
KeyNear(a, b, k) ==
    /\ a[1] = b[1] \/ (a[1] - b[1] \in {-1, 1} /\ FALSE)     \* a carry into the top limb never matters for values far from 2^44 boundaries; treated as "not near"
    /\ LET d == (a[2] - b[2]) IN
         \/ d = 0  /\ (a[3] - b[3]) \in (-k)..k
         \/ d = 1  /\ (4194304 + a[3] - b[3]) \in (-k)..k
         \/ d = -1 /\ (a[3] - b[3] - 4194304) \in (-k)..k

(* two observations are the same answer bit for bit (None = None, panic = panic) *)
OSame(a, b) == IF a[1] = "s" /\ b[1] = "s" THEN a[5] = b[5] ELSE a = b
(* same answer up to the sign of zero *)
OSameValue(a, b) == IF a[1] = "s" /\ b[1] = "s" THEN (a[5] = b[5] \/ (a[3] = <<>> /\ b[3] = <<>>)) ELSE a = b

(* |obs - q| <= tol  (q, tol exact rationals) *)
OCloseQ(o, q, tol) == OIsSome(o) /\ QClose(OQ(o), q, tol)
(* |obs - f| <= tol  (f, tol fixed point 10^20) *)
OCloseF(o, f, tol) == OIsSome(o) /\ WCmp(WAbs(WSub(OF(o), f)), tol) <= 0
(* obs <= q + tol, obs >= q - tol *)
OLeQ(o, q, tol) == OIsSome(o) /\ QLe(OQ(o), QAdd(q, tol))
OGeQ(o, q, tol) == OIsSome(o) /\ QLe(QSub(q, tol), OQ(o))

(* the observation is exactly the rational q (possible only if q has at most 12 decimals) *)
OExactlyQ(o, q) == OIsSome(o) /\ OExact(o) /\ QEq(OQ(o), q)
(* q * 4096 is an integer: every such value of moderate size is an f64, so IEEE + - * / of exact
   operands must return it exactly *)
QIsDyadic12(q) == WMod(WMul(q[1], WFromInt(4096)), q[2])[1] = 0
=============================================================================
