------------------------------- MODULE Tally --------------------------------
(* Bookkeeping that does not influence any verdict: coverage counters for the evidence files and a
   cap on the number of printed violation lines.  In pure TLA+ every operator is TRUE; the Java
   override Tally.class counts (thread-safely, across TLC workers) and prints one line
   "TALLY {json}" from TallyDump, which the configurations evaluate as POSTCONDITION. *)
Tally(key)         == TRUE
(* TRUE while key has been tallied at most k times: used to stop printing, never to stop checking *)
TallyUpTo(key, k)  == TRUE
TallyDump(x)       == TRUE
=============================================================================
