/*
 * TLC module override for Wide.tla: the same operators on the same representation
 * (<<sign, little-endian base-10^4 limbs>>), computed with java.math.BigInteger.
 * Loaded by TLC because Wide.class sits next to Wide.tla.  WideTest.tla checks it against
 * the pure TLA+ definitions' reference vectors; removing Wide.class only makes TLC slower.
 */
import java.math.BigInteger;
import tlc2.value.impl.IntValue;
import tlc2.value.impl.TupleValue;
import tlc2.value.impl.Value;

public class Wide {
    private static final BigInteger BASE = BigInteger.valueOf(10000);
    private static final Value[] NOLIMBS = new Value[0];

    private static BigInteger dec(final Value v) {
        final TupleValue t = (TupleValue) v.toTuple();
        final int s = ((IntValue) t.elems[0]).val;
        if (s == 0) return BigInteger.ZERO;
        final TupleValue d = (TupleValue) t.elems[1].toTuple();
        BigInteger r = BigInteger.ZERO;
        for (int i = d.elems.length - 1; i >= 0; i--) {
            r = r.multiply(BASE).add(BigInteger.valueOf(((IntValue) d.elems[i]).val));
        }
        return s < 0 ? r.negate() : r;
    }

    private static Value enc(final BigInteger x) {
        final int s = x.signum();
        if (s == 0) return new TupleValue(new Value[] { IntValue.gen(0), new TupleValue(NOLIMBS) });
        BigInteger m = x.abs();
        final java.util.ArrayList<Value> limbs = new java.util.ArrayList<>();
        while (m.signum() != 0) {
            final BigInteger[] qr = m.divideAndRemainder(BASE);
            limbs.add(IntValue.gen(qr[1].intValue()));
            m = qr[0];
        }
        return new TupleValue(new Value[] { IntValue.gen(s), new TupleValue(limbs.toArray(new Value[0])) });
    }

    public static Value WAdd(final Value a, final Value b) { return enc(dec(a).add(dec(b))); }
    public static Value WSub(final Value a, final Value b) { return enc(dec(a).subtract(dec(b))); }
    public static Value WMul(final Value a, final Value b) { return enc(dec(a).multiply(dec(b))); }
    public static Value WCmp(final Value a, final Value b) { return IntValue.gen(dec(a).compareTo(dec(b))); }
    public static Value WDiv(final Value a, final Value b) {
        final BigInteger x = dec(a), y = dec(b);
        BigInteger[] qr = x.divideAndRemainder(y);
        BigInteger q = qr[0];
        if (qr[1].signum() != 0 && (qr[1].signum() != y.signum())) q = q.subtract(BigInteger.ONE);
        return enc(q);
    }
    public static Value WISqrt(final Value a) { return enc(dec(a).sqrt()); }
    public static Value WFromInt(final Value i) { return enc(BigInteger.valueOf(((IntValue) i).val)); }
    public static Value WGcd(final Value a, final Value b) { return enc(dec(a).gcd(dec(b))); }
}
