-------------------------------- MODULE SeqX --------------------------------
(* sequence helpers over exact rationals *)
EXTENDS Obs

LastK(s, k) == IF Len(s) <= k THEN s ELSE SubSeq(s, Len(s) - k + 1, Len(s))
Front(s)    == SubSeq(s, 1, Len(s) - 1)
Last(s)     == s[Len(s)]

RECURSIVE QSumFrom(_, _)
QSumFrom(s, i) == IF i > Len(s) THEN QZero ELSE QAdd(s[i], QSumFrom(s, i + 1))
(* TLC keeps [i \in 1..n |-> e] as an unevaluated lambda and re-evaluates it on every Len / index: concatenation with
   the empty sequence turns it into a concrete tuple once (measured: 0.33 s -> 3 ms per event at N = 20) *)
Force(s) == <<>> \o s
QSum(s) == LET t == Force(s) IN QSumFrom(t, 1)
QSumSq(s) == QSum([i \in 1..Len(s) |-> QSq(s[i])])

RECURSIVE QMinFrom(_, _)
QMinFrom(s, i) == IF i = Len(s) THEN s[i] ELSE QMin(s[i], QMinFrom(s, i + 1))
QMinSeq(s) == LET t == Force(s) IN QMinFrom(t, 1)
RECURSIVE QMaxFrom(_, _)
QMaxFrom(s, i) == IF i = Len(s) THEN s[i] ELSE QMax(s[i], QMaxFrom(s, i + 1))
QMaxSeq(s) == LET t == Force(s) IN QMaxFrom(t, 1)

RECURSIVE ISumFrom(_, _)
ISumFrom(s, i) == IF i > Len(s) THEN 0 ELSE s[i] + ISumFrom(s, i + 1)
ISum(s) == LET t == Force(s) IN ISumFrom(t, 1)

Count(s, P(_)) == ISum([i \in 1..Len(s) |-> IF P(s[i]) THEN 1 ELSE 0])

QMean(s) == QDiv(QSum(s), QInt(Len(s)))
(* sum of squared deviations from the mean *)
QSS(s) == LET m == QMean(s) IN QSum([i \in 1..Len(s) |-> QSq(QSub(s[i], m))])
AllEqual(s) == \A i \in 1..Len(s) : QEq(s[i], s[1])
=============================================================================
