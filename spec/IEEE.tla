-------------------------------- MODULE IEEE --------------------------------
(***************************************************************************)
(* Exact decoding of a logged f64 from its order-preserving key, and the    *)
(* correctly rounded (round-to-nearest, ties-to-even) result of ONE         *)
(* arithmetic operation on two decoded f64 values.  This is the only place  *)
(* where the specification says anything about IEEE-754: C14 demands that   *)
(* Add, Subtract, Multiply and Divide report a+b, a-b, a*b, a/b of their    *)
(* children's current outputs BIT-EXACTLY, i.e. exactly the rounding of the *)
(* real-number result of the two f64 operands.  (Normal range only: results *)
(* that overflow or are subnormal are not judged.)                          *)
(* IEEETest.tla validates it against Python (fractions / struct) vectors.   *)
(***************************************************************************)
EXTENDS Obs

W2 == <<1, <<2>>>>
RECURSIVE Pow2(_)
Pow2(k) == IF k = 0 THEN WOne ELSE IF k % 2 = 0 THEN LET h == Pow2(k \div 2) IN WMul(h, h) ELSE WMul(W2, Pow2(k - 1))
P22 == WFromInt(4194304)
P52 == Pow2(52)
P53 == Pow2(53)
P63 == Pow2(63)

(* the 64 bits behind a key <<k2, k1, k0>> (20/22/22 bits) as a wide integer *)
KeyBits(k) == WAdd(WMul(WAdd(WMul(WFromInt(k[1]), P22), WFromInt(k[2])), P22), WFromInt(k[3]))

(* <<sign, mantissa (wide, < 2^53), exponent>>: value = sign * mantissa * 2^exponent *)
Decode(k) ==
    LET key == KeyBits(k)
        pos == WCmp(key, P63) >= 0
        bits == IF pos THEN WSub(key, P63) ELSE WSub(WSub(WMul(P63, W2), WOne), key)     \* |x| bit pattern without the sign bit
        mag == IF pos THEN bits ELSE WSub(bits, P63)
        E == WToInt(WDiv(mag, P52))
        frac == WMod(mag, P52)
    IN  IF E = 0 THEN <<IF frac[1] = 0 THEN 0 ELSE (IF pos THEN 1 ELSE -1), frac, -1074>>
        ELSE <<IF pos THEN 1 ELSE -1, WAdd(P52, frac), E - 1075>>

(* the decoded value as an exact rational *)
DecQ(d) == IF d[3] >= 0 THEN <<WMul(WFromInt(d[1]), WMul(d[2], Pow2(d[3]))), WOne>>
           ELSE <<WMul(WFromInt(d[1]), d[2]), Pow2(-d[3])>>
KeyQ(k) == DecQ(Decode(k))

(* number of bits of a positive wide integer *)
RECURSIVE BitLenFrom(_, _, _)
BitLenFrom(x, lo, hi) ==      \* invariant: 2^lo <= x < 2^hi
    IF hi - lo = 1 THEN hi
    ELSE LET mid == (lo + hi) \div 2 IN IF WCmp(x, Pow2(mid)) >= 0 THEN BitLenFrom(x, mid, hi) ELSE BitLenFrom(x, lo, mid)
BitLen(x) == BitLenFrom(x, 0, 14 * Len(x[2]))       \* a limb holds fewer than 14 bits

(* round-to-nearest-even of the positive rational P/Q to 53 significant bits: <<mantissa, exponent>> *)
RoundPos(P, Q) ==
    LET e0 == BitLen(P) - BitLen(Q) - 53            \* 2^(e0+52-1) < P/Q < 2^(e0+53+1)
        scaled(e) == IF e >= 0 THEN <<P, WMul(Q, Pow2(e))>> ELSE <<WMul(P, Pow2(-e)), Q>>
        quo(e) == WDiv(scaled(e)[1], scaled(e)[2])
        e == IF WCmp(quo(e0), P53) >= 0 THEN e0 + 1 ELSE IF WCmp(quo(e0), P52) < 0 THEN e0 - 1 ELSE e0
        nd == scaled(e)
        m == WDiv(nd[1], nd[2])
        rem2 == WMul(W2, WSub(nd[1], WMul(m, nd[2])))       \* twice the remainder
        c == WCmp(rem2, nd[2])
        up == c > 0 \/ (c = 0 /\ WMod(m, W2)[1] # 0)
        m1 == IF up THEN WAdd(m, WOne) ELSE m
    IN  IF WCmp(m1, P53) >= 0 THEN <<P52, e + 1>> ELSE <<m1, e>>

(* the f64 nearest to the rational q, as an exact rational; q = 0 -> 0 *)
RoundQ(q) == IF q[1][1] = 0 THEN QZero
             ELSE LET r == RoundPos(WAbs(q[1]), q[2])
                      v == IF r[2] >= 0 THEN <<WMul(r[1], Pow2(r[2])), WOne>> ELSE <<r[1], Pow2(-r[2])>>
                  IN  IF q[1][1] < 0 THEN QNeg(v) ELSE v

(* is the result in the range this module judges (normal, finite)? *)
Judged(q) == q[1][1] = 0 \/ (QLt(<<WOne, Pow2(1000)>>, QAbs(q)) /\ QLt(QAbs(q), <<Pow2(1000), WOne>>))

(* observation o is exactly the correctly rounded value of the rational q *)
OIsRounded(o, q) == OIsSome(o) /\ QEq(KeyQ(OKey(o)), RoundQ(q))
=============================================================================
