------------------------------- MODULE MC_C04 -------------------------------
(***************************************************************************)
(* C04: moving averages are genuine averages of their window.              *)
(*   interval  the answer lies in [min, max] of the values it averages     *)
(*             (last N for Sma/Alma, all so far for Ema)                   *)
(*   constant  a constant window is reproduced                             *)
(*   monotone  raising any one input never lowers any output: for every    *)
(*             position and every larger alphabet symbol the sibling       *)
(*             history's observation is compared with this one             *)
(* (the Ema recurrence / Alma kernel clauses are decided by MC_Def, the     *)
(* affine clause by MC_Rel).  All three are predicates on REAL              *)
(* observations; the only tolerance is the logging resolution (1e-11       *)
(* relative), i.e. "a few ulps" cannot be resolved but nothing coarser is   *)
(* tolerated.                                                              *)
(***************************************************************************)
EXTENDS Prod

Tiny(q) == QMul(QPow10Neg(11), QMax(QOne, QAbs(q)))
Win == IF Cfg.k = "Ema" THEN Raw ELSE LastK(Raw, Cfg.n)
Applies == Len(hist) >= 1 /\ OIsSome(ObsNow)

IntervalOK == ~Applies \/
    LET lo == QMinSeq(Win) hi == QMaxSeq(Win) IN
    /\ Tally("interval")
    /\ OGeQ(ObsNow, lo, Tiny(lo)) /\ OLeQ(ObsNow, hi, Tiny(hi))

ConstantOK == ~Applies \/ ~AllEqual(Win) \/
    (Tally("constant") /\ OCloseQ(ObsNow, Win[1], Tiny(Win[1])))

RECURSIVE Pow(_, _)
Pow(b, e) == IF e = 0 THEN 1 ELSE b * Pow(b, e - 1)
CodeOf(x) == CHOOSE a \in 1..A : Alpha[a] = x
(* the alphabet is listed in increasing order: a larger code is a larger value *)
MonotoneOK == ~Applies \/
    \A i \in 1..Len(hist) : \A a2 \in 1..A :
        LET a1 == CodeOf(hist[i]) IN
        a2 <= a1 \/
        LET o2 == ObsAt(c, Len(hist), idx + (a2 - a1) * Pow(A, Len(hist) - i)) IN
        ~OIsSome(o2) \/ (Tally("monotone") /\ QLe(OQ(ObsNow), QAdd(OQ(o2), Tiny(OQ(o2)))))

Verdict == /\ Tally("states")
           /\ (IntervalOK \/ Report("C04", "interval"))
           /\ (ConstantOK \/ Report("C04", "constant"))
           /\ (MonotoneOK \/ Report("C04", "monotone"))
=============================================================================
