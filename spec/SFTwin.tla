------------------------------- MODULE SFTwin -------------------------------
(***************************************************************************)
(* A family of behaviours of SF.tla aimed at C17's quantifier "all         *)
(* positions at which last() is called repeatedly or a clone is taken":    *)
(* three slots of ONE configuration,                                       *)
(*   slot 0  is fed x and polled with last() at a nondeterministic subset  *)
(*           of the steps (once or twice),                                 *)
(*   slot 1  is its twin: same inputs, never polled before the end,        *)
(*   slot 2  is a clone of slot 0 taken at a nondeterministic step and fed *)
(*           either the same later inputs or DIFFERENT ones (then a fresh  *)
(*           slot 3 is built at the end and fed the clone's history: the   *)
(*           clone must answer like it, and the original like its twin -   *)
(*           feeding one never affects the other).                         *)
(* (a poll is two consecutive last() calls, so repeated reads are always    *)
(* covered).  Each macro step is a composition of SF actions (Update, Last, Clone).   *)
(* At the end all live slots are read: by C17 the three answers agree.     *)
(***************************************************************************)
EXTENDS SF

Steps == Scope.steps

VARIABLES n, cloned, div
varsT == <<slots, prog, n, cloned, div>>

InitT == /\ \E k \in 1..Len(Cfgs) :
              /\ slots = [i \in Slots |-> IF i <= 2 THEN <<"live", k, <<>>>> ELSE <<"empty">>]
              /\ prog = <<<<"new", 0, Cfgs[k]>>, <<"new", 1, Cfgs[k]>>>>
         /\ n = 0 /\ cloned = FALSE /\ div = FALSE

Opt(b, s) == IF b THEN s ELSE <<>>

(* longer behaviours concentrate on the clone positions and leave the polling out *)
PollChoices == IF "nopoll" \in DOMAIN Scope /\ Scope.nopoll THEN {0} ELSE {0, 2}
Other(x) == Inputs[(x % Len(Inputs)) + 1]
RECURSIVE Feed(_, _, _)
Feed(slot, h, i) == IF i > Len(h) THEN <<>> ELSE <<<<"u", slot, h[i]>>>> \o Feed(slot, h, i + 1)

StepT == /\ n < Steps
         /\ \E x \in 1..Len(Inputs), polls \in PollChoices, cl \in BOOLEAN, dv \in BOOLEAN :
              LET v == Inputs[x]
                  doclone == cl /\ ~cloned
                  h0 == Append(slots[1][3], v)
                  v2 == IF div THEN Other(x) ELSE v
              IN  /\ (dv => doclone)
                  /\ prog' = prog \o <<<<"u", 0, v>>>> \o Opt(polls >= 1, <<<<"l", 0>>>>) \o Opt(polls = 2, <<<<"l", 0>>>>)
                                   \o Opt(doclone, <<<<"clone", 0, 2>>>>)
                                   \o <<<<"u", 1, v>>>> \o Opt(cloned, <<<<"u", 2, v2>>>>)
                  /\ slots' = [i \in Slots |-> IF i <= 2 \/ doclone THEN <<"live", slots[1][2], h0>>
                                               ELSE IF i = 3 /\ cloned THEN <<"live", slots[3][2], Append(slots[3][3], v2)>>
                                               ELSE slots[i]]
                  /\ cloned' = (cloned \/ doclone)
                  /\ div' = (div \/ (doclone /\ dv))
                  /\ n' = n + 1

FinishT == /\ n = Steps
           /\ prog' = prog \o <<<<"l", 0>>, <<"l", 1>>>> \o Opt(cloned, <<<<"l", 2>>>>)
                            \o Opt(div, <<<<"new", 3, Cfgs[slots[1][2]]>>>> \o Feed(3, slots[3][3], 1) \o <<<<"l", 3>>>>)
           /\ n' = Steps + 1
           /\ UNCHANGED <<slots, cloned, div>>

NextT == StepT \/ FinishT

EmitT == n <= Steps \/ PrintT(<<"PROG", ToJson(prog)>>)
=============================================================================
