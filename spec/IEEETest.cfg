
