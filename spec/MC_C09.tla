------------------------------- MODULE MC_C09 -------------------------------
(***************************************************************************)
(* C09 (a): the pole criterion, decided on the specification's coefficient *)
(* FORMULAS for every window length in the configured range (one state per *)
(* N).  A two-tap feedback y_t = p y_(t-1) + q y_(t-2) is stable iff       *)
(* |q| < 1, q + p < 1, q - p < 1 (Jury); a one-tap feedback iff |p| < 1.   *)
(* This says the DESIGN is stable for all N; that the CODE uses these       *)
(* formulas is what C11's conformance and C09 (b) (recorded long streams,  *)
(* Trace_Exp.tla) establish.                                               *)
(***************************************************************************)
EXTENDS DefsR, Tally, TLC, Json, IOUtils

Scope == JsonDeserialize(IOEnv.SCOPE)
NMin == Scope.nmin
NMax == Scope.nmax

VARIABLE n
Init == n = NMin
Next == n < NMax /\ n' = n + 1

Margin == FFromQ(QPow10Neg(6))       \* distance from the stability boundary that must remain
Lt1(x) == FLt(FAbs(x), FSub(FOne, Margin))
Jury(p, q) == /\ Lt1(q) /\ FLt(FAdd(q, p), FSub(FOne, Margin)) /\ FLt(FSub(q, p), FSub(FOne, Margin))

SSOK(N, ang)   == LET co == SSCoef(N, ang) IN Jury(co[2], co[3])
FlexOK(N)      == LET co == FlexCoef(N) IN Jury(co[2], co[3])
(* roofing high-pass: double pole at 1 - alpha1 *)
RoofAlpha(N, ang) == FDiv(FSub(FAdd(FCos(ang), FSin(ang)), FOne), FCos(ang))
RoofOK(N, ang) == Lt1(FSub(FOne, RoofAlpha(N, ang)))
(* cyber cycle: double pole at 1 - 2/(N+1); Ema: pole at 1 - 2/(N+1); LaguerreRSI: gamma = 2/(N+1) *)
AlphaN(N) == FFromQ(QFrac(2, N + 1))
CyberOK(N) == Lt1(FSub(FOne, AlphaN(N)))
EmaOK(N)   == Lt1(FSub(FOne, AlphaN(N))) /\ FLt(FZero, AlphaN(N)) /\ FLe(AlphaN(N), FOne)
LagRsiOK(N) == N = 1 \/ (FLe(FZero, AlphaN(N)) /\ Lt1(AlphaN(N)))     \* N = 1 gives gamma = 1: the view never reports (degenerate, noted)

Report(view) == PrintT(<<"VIOL", "C09", "pole-criterion." \o view, n>>)

Verdict == /\ Tally("states")
           /\ ((SSOK(n, AngleA(n)) /\ SSOK(n, AngleB(n))) \/ Report("SuperSmoother"))
           /\ (n < Scope.flexmin \/ FlexOK(n) \/ Report("TrendFlex/ReFlex"))
           /\ (n < Scope.roofmin \/ (RoofOK(n, AngleA(n)) /\ RoofOK(n, AngleB(n))) \/ Report("RoofingFilter"))
           /\ (CyberOK(n) \/ Report("CyberCycle"))
           /\ (EmaOK(n) \/ Report("Ema"))
           /\ (LagRsiOK(n) \/ Report("LaguerreRSI"))
Post == TallyDump(TLCGet("stats").generated)
=============================================================================
