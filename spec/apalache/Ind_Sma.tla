------------------------------ MODULE Ind_Sma -------------------------------
(***************************************************************************)
(* Apalache layer (DESIGN.md 2.4): the Cumulative (Step) and Sma (StepSma)  *)
(* machines of Machines.tla restated over integers with type annotations,  *)
(* and an                                                                  *)
(* INDUCTIVE invariant.  `Init => IndInv' and `IndInv /\ Next => IndInv''  *)
(* with \E x \in Int hold for EVERY integer input and EVERY stream length,  *)
(* for the fixed window length N; the ghost w (the last K inputs) keeps the *)
(* state bounded although the stream is not.                                *)
(*   apalache-mc check --init=Init --inv=IndInv --length=0 Ind_Sma.tla      *)
(*   apalache-mc check --init=IndInit --inv=IndInv --length=1 Ind_Sma.tla   *)
(***************************************************************************)
EXTENDS Integers, Sequences, Apalache

CONSTANT
    \* @type: Int;
    N
K == N + 2

VARIABLES
    \* @type: Seq(Int);
    q,      \* the machine's FIFO
    \* @type: Int;
    sum,    \* the machine's running sum (Sma: sum / len;  Cumulative: the same sum)
    \* @type: Seq(Int);
    w,      \* ghost: the last K inputs, oldest first
    \* @type: Int;
    t       \* ghost: min(number of inputs so far, K+1)

\* @type: (Seq(Int), Int) => Seq(Int);
LastK(s, k) == IF Len(s) <= k THEN s ELSE SubSeq(s, Len(s) - k + 1, Len(s))
\* @type: (Int, Int) => Int;
Plus(a, b) == a + b
\* @type: Seq(Int) => Int;
Sum(s) == ApaFoldSeqLeft(Plus, 0, s)

ConstInit == N \in 1..6

Init == q = <<>> /\ sum = 0 /\ w = <<>> /\ t = 0

Step(x) ==
    /\ IF Len(q) >= N
       THEN q' = Append(Tail(q), x) /\ sum' = sum - Head(q) + x
       ELSE q' = Append(q, x) /\ sum' = sum + x
    /\ w' = LastK(Append(w, x), K)
    /\ t' = IF t <= K THEN t + 1 ELSE t

(* Sma since fix 6e04b1a: once a value leaves, the window is summed afresh *)
StepSma(x) ==
    /\ IF Len(q) >= N
       THEN q' = Append(Tail(q), x) /\ sum' = Sum(Append(Tail(q), x))
       ELSE q' = Append(q, x) /\ sum' = sum + x
    /\ w' = LastK(Append(w, x), K)
    /\ t' = IF t <= K THEN t + 1 ELSE t

Next == \E x \in Int : Step(x) \/ StepSma(x)

(* the machine state is a function of the ghost window: finite memory (C03) ... *)
Coupled == /\ q = LastK(w, N)
           /\ Len(w) = (IF t <= K THEN t ELSE K)
           /\ t >= 0
(* ... and the aggregate is the sum over exactly the last N inputs (C02): out = sum / len(q) *)
SumOK == sum = Sum(LastK(w, N))
IndInv == Coupled /\ SumOK

(* an arbitrary state satisfying the invariant, for the inductive step *)
IndInit == /\ w = Gen(8)
           /\ q = Gen(8)
           /\ sum \in Int
           /\ t \in 0..(K + 1)
           /\ IndInv
=============================================================================
