------------------------------ MODULE Ind_Ext -------------------------------
(***************************************************************************)
(* Apalache layer: the Min machine of Machines.tla (Max is its mirror       *)
(* image) over integers: evict when len >= N, RESCAN the remaining window   *)
(* when the evicted value equals the running minimum, then fold in the new  *)
(* value.  Inductive invariant: the FIFO is the last N inputs and the       *)
(* running minimum is the minimum of exactly those - for every integer      *)
(* input and every stream length.                                           *)
(***************************************************************************)
EXTENDS Integers, Sequences, Apalache

CONSTANT
    \* @type: Int;
    N
K == N + 2

VARIABLES
    \* @type: Seq(Int);
    q,
    \* @type: Bool;
    hasm,
    \* @type: Int;
    m,
    \* @type: Seq(Int);
    w

\* @type: (Seq(Int), Int) => Seq(Int);
LastK(s, k) == IF Len(s) <= k THEN s ELSE SubSeq(s, Len(s) - k + 1, Len(s))
\* @type: (Int, Int) => Int;
Min2(a, b) == IF a <= b THEN a ELSE b
\* minimum of a non-empty sequence
\* @type: Seq(Int) => Int;
MinOf(s) == ApaFoldSeqLeft(Min2, s[1], s)

ConstInit == N \in 1..5

Init == q = <<>> /\ hasm = FALSE /\ m = 0 /\ w = <<>>

Step(x) ==
    LET ev == Len(q) >= N
        q1 == IF ev THEN Tail(q) ELSE q
        rescan == ev /\ hasm /\ Head(q) = m
        has1 == IF rescan THEN Len(q1) > 0 ELSE hasm
        m1 == IF rescan /\ Len(q1) > 0 THEN MinOf(q1) ELSE m
    IN  /\ q' = Append(q1, x)
        /\ hasm' = TRUE
        /\ m' = IF has1 THEN Min2(m1, x) ELSE x
        /\ w' = LastK(Append(w, x), K)

Next == \E x \in Int : Step(x)

IndInv == /\ q = LastK(w, N)
          /\ Len(w) <= K
          /\ hasm = (Len(q) > 0)
          /\ (Len(q) > 0 => m = MinOf(q))

IndInit == /\ w = Gen(7) /\ q = Gen(7) /\ hasm \in BOOLEAN /\ m \in Int /\ IndInv
=============================================================================
