----------------------------- MODULE Ind_MyRsi ------------------------------
(***************************************************************************)
(* Apalache layer: the gains / losses bookkeeping shared by the MyRSI and   *)
(* Rsi machines of Machines.tla, over integers (Rsi keeps the same sums     *)
(* divided by N).  A change enters with the new value (against last_val)    *)
(* and leaves when its later endpoint is evicted (against the reference     *)
(* value that preceded the window).  Inductive invariant: cu / cd are the   *)
(* sums of the positive / absolute non-positive changes over exactly the    *)
(* values in the window, the first of them measured against the value that  *)
(* preceded the window (C05, and C03 with K = N + 1).  The run-length       *)
(* resync of the code is a no-op in exact arithmetic and is left out.       *)
(***************************************************************************)
EXTENDS Integers, Sequences, Apalache

CONSTANT
    \* @type: Int;
    N
K == N + 1

VARIABLES
    \* @type: Seq(Int);
    q,
    \* @type: Int;
    cu,
    \* @type: Int;
    cd,
    \* @type: Int;
    lastv,
    \* @type: Int;
    oldest,
    \* @type: Seq(Int);
    w       \* ghost: the last N+1 inputs

\* @type: (Seq(Int), Int) => Seq(Int);
LastK(s, k) == IF Len(s) <= k THEN s ELSE SubSeq(s, Len(s) - k + 1, Len(s))
\* @type: Int => Int;
Pos(d) == IF d > 0 THEN d ELSE 0
\* @type: Int => Int;
Neg(d) == IF d > 0 THEN 0 ELSE -d
\* fold state: <<previous value, gains so far, losses so far>>
\* @type: (<<Int, Int, Int>>, Int) => <<Int, Int, Int>>;
Acc(a, x) == <<x, a[2] + Pos(x - a[1]), a[3] + Neg(x - a[1])>>
\* @type: (Int, Seq(Int)) => <<Int, Int, Int>>;
GL(ref, s) == ApaFoldSeqLeft(Acc, <<ref, 0, 0>>, s)

ConstInit == N \in 1..4

Init == q = <<>> /\ cu = 0 /\ cd = 0 /\ lastv = 0 /\ oldest = 0 /\ w = <<>>

Step(x) ==
    LET first == Len(q) = 0
        old0 == IF first THEN x ELSE oldest
        lv0 == IF first THEN x ELSE lastv
        ev == Len(q) >= N
        h == Head(q)
        q1 == IF ev THEN Tail(q) ELSE q
        cu1 == IF ev THEN cu - Pos(h - old0) ELSE cu
        cd1 == IF ev THEN cd - Neg(h - old0) ELSE cd
        old1 == IF ev THEN h ELSE old0
    IN  /\ q' = Append(q1, x)
        /\ cu' = cu1 + Pos(x - lv0)
        /\ cd' = cd1 + Neg(x - lv0)
        /\ lastv' = x
        /\ oldest' = old1
        /\ w' = LastK(Append(w, x), K)

Next == \E x \in Int : Step(x)

\* the reference the oldest change in the window is measured against
Ref == IF Len(w) > N THEN w[Len(w) - N] ELSE w[1]
IndInv == /\ q = LastK(w, N)
          /\ Len(w) <= K
          /\ (Len(q) = 0 => (cu = 0 /\ cd = 0))
          /\ (Len(q) > 0 => /\ lastv = q[Len(q)]
                            /\ oldest = Ref
                            /\ cu = GL(Ref, q)[2]
                            /\ cd = GL(Ref, q)[3])

IndInit == /\ w = Gen(6) /\ q = Gen(6) /\ cu \in Int /\ cd \in Int /\ lastv \in Int /\ oldest \in Int /\ IndInv
=============================================================================
