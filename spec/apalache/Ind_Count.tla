------------------------------ MODULE Ind_Count -----------------------------
(***************************************************************************)
(* Apalache layer: the BinaryEntropy machine's counter of non-negative     *)
(* values (an usize in the code: decrementing it at 0 is a panic) and the   *)
(* Roc machine's reference value.  Inductive invariants: the counter equals *)
(* the number of non-negative values in the window (hence never underflows) *)
(* and Roc's base is the value N steps back (the first value before that).  *)
(***************************************************************************)
EXTENDS Integers, Sequences, Apalache

CONSTANT
    \* @type: Int;
    N
K == N + 1

VARIABLES
    \* @type: Seq(Int);
    q,
    \* @type: Int;
    cnt,
    \* @type: Bool;
    panicked,
    \* @type: Int;
    oldest,
    \* @type: Seq(Int);
    w

\* @type: (Seq(Int), Int) => Seq(Int);
LastK(s, k) == IF Len(s) <= k THEN s ELSE SubSeq(s, Len(s) - k + 1, Len(s))
\* @type: (Int, Int) => Int;
CountNN(c, x) == IF x >= 0 THEN c + 1 ELSE c
\* @type: Seq(Int) => Int;
NonNeg(s) == ApaFoldSeqLeft(CountNN, 0, s)

ConstInit == N \in 1..5
Init == q = <<>> /\ cnt = 0 /\ panicked = FALSE /\ oldest = 0 /\ w = <<>>

Step(x) ==
    LET ev == Len(q) >= N
        dec == ev /\ Head(q) >= 0
        c1 == IF dec THEN cnt - 1 ELSE cnt
        q1 == IF ev THEN Tail(q) ELSE q
        o0 == IF Len(q) = 0 THEN x ELSE oldest
    IN  /\ q' = Append(q1, x)
        /\ panicked' = (panicked \/ c1 < 0)
        /\ cnt' = (IF c1 < 0 THEN 0 ELSE c1) + (IF x >= 0 THEN 1 ELSE 0)
        /\ oldest' = IF ev THEN Head(q) ELSE o0
        /\ w' = LastK(Append(w, x), K)
Next == \E x \in Int : Step(x)

IndInv == /\ q = LastK(w, N)
          /\ Len(w) <= K
          /\ cnt = NonNeg(q)
          /\ ~panicked
          /\ (Len(q) > 0 => oldest = (IF Len(w) > N THEN w[Len(w) - N] ELSE w[1]))
IndInit == /\ w = Gen(6) /\ q = Gen(6) /\ cnt \in Int /\ panicked \in BOOLEAN /\ oldest \in Int /\ IndInv
=============================================================================
