------------------------------- MODULE Ind_HL -------------------------------
(***************************************************************************)
(* Apalache layer: the HLNormalizer machine of Machines.tla over integers:  *)
(* the evicted value is popped FIRST, min and max are re-scanned over what  *)
(* remains if it touched the extent, then the new value extends the extent. *)
(* Inductive invariant: min / max are the extrema of exactly the values in  *)
(* the window (the defect repaired by 1bc0e3b re-scanned before popping).   *)
(***************************************************************************)
EXTENDS Integers, Sequences, Apalache

CONSTANT
    \* @type: Int;
    N
K == N + 2

VARIABLES
    \* @type: Seq(Int);
    q,
    \* @type: Int;
    mn,
    \* @type: Int;
    mx,
    \* @type: Seq(Int);
    w

\* @type: (Seq(Int), Int) => Seq(Int);
LastK(s, k) == IF Len(s) <= k THEN s ELSE SubSeq(s, Len(s) - k + 1, Len(s))
\* @type: (Int, Int) => Int;
Min2(a, b) == IF a <= b THEN a ELSE b
\* @type: (Int, Int) => Int;
Max2(a, b) == IF a >= b THEN a ELSE b
\* @type: Seq(Int) => Int;
MinOf(s) == ApaFoldSeqLeft(Min2, s[1], s)
\* @type: Seq(Int) => Int;
MaxOf(s) == ApaFoldSeqLeft(Max2, s[1], s)

ConstInit == N \in 1..5
Init == q = <<>> /\ mn = 0 /\ mx = 0 /\ w = <<>>

Step(x) ==
    LET first == Len(q) = 0
        mn0 == IF first THEN x ELSE mn
        mx0 == IF first THEN x ELSE mx
        ev == Len(q) >= N
        q1 == IF ev THEN Tail(q) ELSE q
        touch == ev /\ (Head(q) <= mn0 \/ Head(q) >= mx0)
        mn1 == IF touch THEN (IF Len(q1) = 0 THEN x ELSE MinOf(q1)) ELSE mn0
        mx1 == IF touch THEN (IF Len(q1) = 0 THEN x ELSE MaxOf(q1)) ELSE mx0
    IN  /\ q' = Append(q1, x)
        /\ mn' = Min2(mn1, x)
        /\ mx' = Max2(mx1, x)
        /\ w' = LastK(Append(w, x), K)
Next == \E x \in Int : Step(x)

IndInv == /\ q = LastK(w, N)
          /\ Len(w) <= K
          /\ (Len(q) > 0 => (mn = MinOf(q) /\ mx = MaxOf(q)))
IndInit == /\ w = Gen(7) /\ q = Gen(7) /\ mn \in Int /\ mx \in Int /\ IndInv
=============================================================================
