--------------------------------- MODULE SF ---------------------------------
(***************************************************************************)
(* The crate as a user sees it: a set of instance slots, each holding a    *)
(* view built from a configuration, with the public operations             *)
(*     New(i, cfg)   Update(i, x)   Last(i)   Clone(i, j)   Drop(i)        *)
(* The abstract state of an instance is (configuration, delivered raw      *)
(* history): C17 says precisely that every answer is a function of that    *)
(* pair - last() does not change it, a clone copies it, feeding one slot   *)
(* leaves the others alone.                                                *)
(*                                                                         *)
(* TLC generates behaviours of this module (exhaustively to a small depth, *)
(* by simulation beyond); each complete behaviour is printed as a program  *)
(* that the harness replays against the real crate (pipeline P2), and      *)
(* Trace_SF.tla validates the recorded answers.                            *)
(***************************************************************************)
EXTENDS Naturals, Sequences, TLC, Json, IOUtils

Scope  == JsonDeserialize(IOEnv.SCOPE)
Cfgs   == Scope.cfgs
Inputs == Scope.inputs
NSlots == Scope.slots
Depth  == Scope.depth

VARIABLES slots,   \* slot -> <<"empty">> | <<"live", cfg index, history>>
          prog     \* the operations so far, in the harness' program syntax
vars == <<slots, prog>>

Slots == 1..NSlots
Live(i) == slots[i][1] = "live"

Init == /\ slots = [i \in Slots |-> <<"empty">>]
        /\ prog = <<>>

New(i, k)   == /\ ~Live(i)
               /\ slots' = [slots EXCEPT ![i] = <<"live", k, <<>>>>]
               /\ prog' = Append(prog, <<"new", i - 1, Cfgs[k]>>)
Update(i, x) == /\ Live(i)
                /\ slots' = [slots EXCEPT ![i] = <<"live", slots[i][2], Append(slots[i][3], x)>>]
                /\ prog' = Append(prog, <<"u", i - 1, x>>)
Last(i)     == /\ Live(i)
               /\ UNCHANGED slots                        \* an observation: the abstract state does not move
               /\ prog' = Append(prog, <<"l", i - 1>>)
Clone(i, j) == /\ Live(i) /\ i # j
               /\ slots' = [slots EXCEPT ![j] = slots[i]]
               /\ prog' = Append(prog, <<"clone", i - 1, j - 1>>)
Drop(i)     == /\ Live(i)
               /\ slots' = [slots EXCEPT ![i] = <<"empty">>]
               /\ prog' = Append(prog, <<"drop", i - 1>>)

Next == /\ Len(prog) < Depth
        /\ \/ \E i \in Slots, k \in 1..Len(Cfgs) : New(i, k)
           \/ \E i \in Slots, x \in 1..Len(Inputs) : Update(i, Inputs[x])
           \/ \E i \in Slots : Last(i)
           \/ \E i \in Slots : Last(i)                   \* listed twice: reads are as likely as writes in simulation
           \/ \E i, j \in Slots : Clone(i, j)
           \/ \E i \in Slots : Drop(i) /\ Len(prog) % 5 = 4

Spec == Init /\ [][Next]_vars

(* model-level sanity: a live slot's history only grows by Update, is copied by Clone *)
TypeOK == \A i \in Slots : slots[i][1] \in {"empty", "live"}

(* emit every complete behaviour once *)
Emit == Len(prog) < Depth \/ PrintT(<<"PROG", ToJson(prog)>>)
=============================================================================
