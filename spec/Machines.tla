------------------------------ MODULE Machines ------------------------------
(***************************************************************************)
(* The IMPLEMENTATION-SHAPED machines: one small state machine per view,   *)
(* structured like the code in /repo/src (after the fix: commits) - the    *)
(* FIFO, the running aggregates, evict-then-insert with the same length    *)
(* test, the rescan when an extremum is evicted, the run-length resync,    *)
(* the warm-up counters - but in EXACT arithmetic (rationals; 20-decimal   *)
(* fixed point where the code calls exp/cos/sqrt/ln).                      *)
(*                                                                         *)
(*   K_Init(node)            initial state                                 *)
(*   K_Step(node, s, x)      state after update(x)   (x: delivered value)  *)
(*   K_Out(node, s)          what last() reports: <<"n">>, <<"q",q>>,      *)
(*                           <<"f",f>> or <<"sq",q>> (sqrt of q)            *)
(*   s.p                     "panicked": an usize underflow, an out-of-     *)
(*                           range index or an unwrap of None would occur   *)
(*   Cells(node, s)          number of scalars held in buffers             *)
(*                                                                         *)
(* Three uses: (1) MC_Model checks machine = definition over all small     *)
(* histories - the design-level result, independent of the code;          *)
(* (2) MC_Conf checks real observation = machine (conformance, drift);     *)
(* (3) the panicked flag and Cells decide C15 / C18 at the model level.    *)
(***************************************************************************)
EXTENDS Tree

MNone == <<"n">>
MQ(q) == <<"q", q>>
MF(f) == <<"f", f>>
MSq(q) == <<"sq", q>>
IsVal(o) == o[1] # "n"
(* a reported value as exact rational / as fixed point *)
VQ(o) == IF o[1] = "q" THEN o[2] ELSE IF o[1] = "f" THEN FToQ(o[2]) ELSE FToQ(FSqrt(FFromQ(o[2])))
VF(o) == IF o[1] = "f" THEN o[2] ELSE IF o[1] = "q" THEN FFromQ(o[2]) ELSE FSqrt(FFromQ(o[2]))

Push(q, x) == Append(q, x)
QI(i) == QInt(i)

-----------------------------------------------------------------------------
(* Sma: the sum grows with every value while the window fills; once a value leaves, the window is summed afresh (sma.rs after
   fix 6e04b1a: a down-dated running sum kept the rounding residue of every value that ever passed through - invisible in this
   exact arithmetic, so the model-level theorems "machine = definition" are the same for both) *)
Sma_Init(n) == [q |-> <<>>, sum |-> QZero, p |-> FALSE]
Sma_Step(n, s, x) ==
    IF Len(s.q) >= n /\ s.q # <<>> THEN LET q1 == Push(Tail(s.q), x) IN [s EXCEPT !.q = q1, !.sum = QNorm(QSum(q1))]
    ELSE [s EXCEPT !.q = Push(@, x), !.sum = QNorm(QAdd(@, x))]
Sma_Out(n, s) == IF Len(s.q) < n \/ s.q = <<>> THEN MNone ELSE MQ(QDiv(s.sum, QI(Len(s.q))))

(* Cumulative: out starts at 0 with the first value *)
Cum_Init(n) == [q |-> <<>>, out |-> MNone, p |-> FALSE]
Cum_Step(n, s, x) ==
    LET o0 == IF s.out = MNone THEN QZero ELSE s.out[2]
        ev == Len(s.q) >= n /\ s.q # <<>>
        o1 == IF ev THEN QSub(o0, Head(s.q)) ELSE o0
        q1 == IF ev THEN Tail(s.q) ELSE s.q
    IN  [s EXCEPT !.q = Push(q1, x), !.out = MQ(QNorm(QAdd(o1, x)))]
Cum_Out(n, s) == s.out

(* Min / Max: rescan when the evicted value equals the extremum *)
Ext_Init(n) == [q |-> <<>>, m |-> MNone, p |-> FALSE]
Ext_Step(n, s, x, ismin) ==
    LET ev == Len(s.q) >= n /\ s.q # <<>>
        q1 == IF ev THEN Tail(s.q) ELSE s.q
        m1 == IF ev /\ s.m # MNone /\ QEq(Head(s.q), s.m[2])
              THEN (IF q1 = <<>> THEN MNone ELSE MQ(IF ismin THEN QMinSeq(q1) ELSE QMaxSeq(q1)))
              ELSE s.m
        m2 == IF m1 = MNone THEN MQ(x) ELSE MQ(IF ismin THEN QMin(m1[2], x) ELSE QMax(m1[2], x))
    IN  [s EXCEPT !.q = Push(q1, x), !.m = m2, !.p = @ \/ (ev /\ s.m = MNone)]
Ext_Out(n, s) == s.m

(* WelfordOnline: push; while the window fills the Welford recurrence adds the new value; once a value has to leave,
   mean and m2 are recomputed from the values in the window by the same recurrence (no subtraction) *)
Wel_Init(n) == [q |-> <<>>, mean |-> QZero, m2 |-> QZero, count |-> 0, p |-> FALSE]
Wel_Add(s, x) ==
    LET d == QSub(x, s.mean)
        mean1 == QNorm(QAdd(s.mean, QDiv(d, QI(s.count + 1))))
    IN  [s EXCEPT !.mean = mean1, !.m2 = QNorm(QAdd(@, QMul(d, QSub(x, mean1)))), !.count = @ + 1]
RECURSIVE Wel_AddAll(_, _, _)
Wel_AddAll(s, xs, i) == IF i > Len(xs) THEN s ELSE Wel_AddAll(Wel_Add(s, xs[i]), xs, i + 1)
Wel_Step(n, s, x) ==
    LET q1 == Push(s.q, x) IN
    IF Len(q1) > n
    THEN LET q2 == Tail(q1) IN Wel_AddAll([s EXCEPT !.q = q2, !.mean = QZero, !.m2 = QZero, !.count = 0], q2, 1)
    ELSE [Wel_Add(s, x) EXCEPT !.q = q1]
Wel_Var(s) == IF s.count > 1 THEN QDiv(s.m2, QI(s.count - 1)) ELSE QZero
Wel_Out(n, s) == IF s.count < n - 1 THEN MNone
                 ELSE IF QSign(Wel_Var(s)) <= 0 THEN MQ(QZero) ELSE MSq(Wel_Var(s))

Vst_Init(n) == [w |-> Wel_Init(n), last |-> QZero, p |-> FALSE]
Vst_Step(n, s, x) == [s EXCEPT !.w = Wel_Step(n, @, x), !.last = x]
Vst_Out(n, s) == LET sd == Wel_Out(n, s.w) IN
                 IF sd = MNone THEN MNone
                 ELSE IF sd[1] = "q" THEN MQ(s.last)                       \* std = 0
                 ELSE MF(SignedSqrt(s.last, sd[2]))
Vsct_Out(n, s) == LET sd == Wel_Out(n, s.w) IN
                  IF sd = MNone THEN MNone
                  ELSE IF sd[1] = "q" THEN MQ(QZero)
                  ELSE MF(SignedSqrt(QSub(s.last, s.w.mean), sd[2]))

(* HLNormalizer: pop, rescan if the evicted value touched the extent, then extend *)
HL_Init(n) == [q |-> <<>>, min |-> QZero, max |-> QZero, last |-> QZero, init |-> TRUE, p |-> FALSE]
HL_Step(n, s, x) ==
    LET s0 == IF s.init THEN [s EXCEPT !.init = FALSE, !.min = x, !.max = x, !.last = x] ELSE s
        ev == Len(s0.q) >= n /\ s0.q # <<>>
        old == Head(s0.q)
        q1 == IF ev THEN Tail(s0.q) ELSE s0.q
        touch == ev /\ (QLe(old, s0.min) \/ QLe(s0.max, old))
        mn1 == IF touch THEN (IF q1 = <<>> THEN x ELSE QMinSeq(q1)) ELSE s0.min
        mx1 == IF touch THEN (IF q1 = <<>> THEN x ELSE QMaxSeq(q1)) ELSE s0.max
    IN  [s0 EXCEPT !.q = Push(q1, x), !.min = QMin(mn1, x), !.max = QMax(mx1, x), !.last = x]
HL_Out(n, s) == IF QEq(s.last, s.min) /\ QEq(s.last, s.max) THEN MQ(QZero)
                ELSE MQ(QAdd(QI(-1), QDiv(QMul(QSub(s.last, s.min), Two), QSub(s.max, s.min))))

Roc_Init(n) == [q |-> <<>>, oldest |-> MNone, out |-> MNone, p |-> FALSE]
Roc_Step(n, s, x) ==
    LET o0 == IF s.q = <<>> THEN MQ(x) ELSE s.oldest
        ev == Len(s.q) >= n /\ s.q # <<>>
        o1 == IF ev THEN MQ(Head(s.q)) ELSE o0
        q1 == IF ev THEN Tail(s.q) ELSE s.q
        out1 == IF o1 = MNone \/ QIsZero(o1[2]) THEN s.out
                ELSE MQ(QMul(QDiv(QSub(x, o1[2]), o1[2]), Hund))
    IN  [s EXCEPT !.q = Push(q1, x), !.oldest = o1, !.out = out1]
Roc_Out(n, s) == s.out

(* BinaryEntropy: p is an usize count: decrementing it at 0 is a panic *)
BE_Init(n) == [q |-> <<>>, cnt |-> 0, p |-> FALSE]
BE_Step(n, s, x) ==
    LET ev == Len(s.q) >= n /\ s.q # <<>>
        dec == ev /\ NonNeg(Head(s.q))
        c1 == IF dec THEN s.cnt - 1 ELSE s.cnt
        q1 == IF ev THEN Tail(s.q) ELSE s.q
    IN  [s EXCEPT !.q = Push(q1, x), !.cnt = (IF c1 < 0 THEN 0 ELSE c1) + (IF NonNeg(x) THEN 1 ELSE 0), !.p = @ \/ c1 < 0]
BE_Out(n, s) == IF s.q = <<>> THEN MNone
                ELSE IF s.cnt = 0 \/ s.cnt = Len(s.q) THEN MQ(QZero) ELSE MF(EntropyF(QFrac(s.cnt, Len(s.q))))

(* Rsi: averages of gains / losses, down-dated with old_ref, resynced on a flat window *)
Rsi_Init(n) == [q |-> <<>>, ag |-> QZero, al |-> QZero, oldref |-> QZero, lastv |-> QZero, out |-> MNone, run |-> 0, p |-> FALSE]
Rsi_Step(n, s, x) ==
    LET s0 == IF s.q = <<>> THEN [s EXCEPT !.oldref = x, !.lastv = x] ELSE s
        run1 == IF s0.q # <<>> /\ QEq(Last(s0.q), x) THEN s0.run + 1 ELSE 1
        wl == QI(n)
        ev == Len(s0.q) >= n /\ s0.q # <<>>
        old == Head(s0.q)
        ch0 == QSub(old, s0.oldref)
        s1 == IF ev THEN [s0 EXCEPT !.oldref = old, !.q = Tail(@),
                                   !.ag = IF QSign(ch0) > 0 THEN QMax(QZero, QNorm(QSub(@, QDiv(ch0, wl)))) ELSE @,
                                   !.al = IF QSign(ch0) > 0 THEN @ ELSE QMax(QZero, QNorm(QSub(@, QDiv(QAbs(ch0), wl))))]
              ELSE s0
        ch == QSub(x, s1.lastv)
        s2 == [s1 EXCEPT !.q = Push(@, x), !.lastv = x, !.run = run1,
                         !.ag = IF QSign(ch) > 0 THEN QNorm(QAdd(@, QDiv(ch, wl))) ELSE @,
                         !.al = IF QSign(ch) > 0 THEN @ ELSE QNorm(QAdd(@, QDiv(QAbs(ch), wl)))]
        s3 == IF run1 >= Len(s2.q) /\ QEq(s2.oldref, x) THEN [s2 EXCEPT !.ag = QZero, !.al = QZero] ELSE s2
    IN  IF Len(s3.q) < n THEN s3
        ELSE [s3 EXCEPT !.out = IF QIsZero(s3.al) THEN MQ(Hund)
                                ELSE MQ(QSub(Hund, QDiv(Hund, QAdd(QOne, QDiv(s3.ag, s3.al)))))]
Rsi_Out(n, s) == s.out

MyRsi_Init(n) == [q |-> <<>>, cu |-> QZero, cd |-> QZero, out |-> QZero, lastv |-> QZero, oldest |-> QZero, run |-> 0, p |-> FALSE]
MyRsi_Step(n, s, x) ==
    LET s0 == IF s.q = <<>> THEN [s EXCEPT !.oldest = x, !.lastv = x] ELSE s
        run1 == IF s0.q # <<>> /\ QEq(Last(s0.q), x) THEN s0.run + 1 ELSE 1
        ev == Len(s0.q) >= n /\ s0.q # <<>>
        old == Head(s0.q)
        s1 == IF ev THEN [s0 EXCEPT !.q = Tail(@), !.oldest = old,
                                   !.cu = IF QLt(s0.oldest, old) THEN QMax(QZero, QNorm(QSub(@, QSub(old, s0.oldest)))) ELSE @,
                                   !.cd = IF QLt(s0.oldest, old) THEN @ ELSE QMax(QZero, QNorm(QSub(@, QSub(s0.oldest, old))))]
              ELSE s0
        s2 == [s1 EXCEPT !.q = Push(@, x), !.lastv = x, !.run = run1,
                         !.cu = IF QLt(s1.lastv, x) THEN QNorm(QSub(QAdd(@, x), s1.lastv)) ELSE @,
                         !.cd = IF QLt(s1.lastv, x) THEN @ ELSE QNorm(QSub(QAdd(@, s1.lastv), x))]
        s3 == IF run1 >= Len(s2.q) /\ QEq(s2.oldest, x) THEN [s2 EXCEPT !.cu = QZero, !.cd = QZero] ELSE s2
    IN  IF QIsZero(QAdd(s3.cu, s3.cd)) THEN s3
        ELSE [s3 EXCEPT !.out = QDiv(QSub(s3.cu, s3.cd), QAdd(s3.cu, s3.cd))]
MyRsi_Out(n, s) == IF Len(s.q) < n THEN MNone ELSE MQ(s.out)

(* windows that are recomputed from the FIFO on every step *)
Win_Init(n) == [q |-> <<>>, out |-> MNone, p |-> FALSE]
Win_Push(n, s, x) == IF Len(s.q) >= n /\ s.q # <<>> THEN Push(Tail(s.q), x) ELSE Push(s.q, x)
CoG_Step(n, s, x) ==
    LET q1 == Win_Push(n, s, x) len == Len(q1)
        num == QSum([i \in 1..len |-> QScale(len - i + 1, q1[i])])
        den == QSum(q1)
    IN  [s EXCEPT !.q = q1, !.out = IF QIsZero(den) THEN MQ(QZero) ELSE MQ(QAdd(QNeg(QDiv(num, den)), QFrac(len + 1, 2)))]
NET_Step(n, s, x) ==
    LET q1 == Win_Push(n, s, x) len == Len(q1) IN
    IF len < 2 THEN [s EXCEPT !.q = q1]
    ELSE LET num == ISum([i \in 1..len |-> ISum([k \in 1..len |-> IF k < i THEN SgnQ(QSub(q1[i], q1[k])) ELSE 0])])
         IN  [s EXCEPT !.q = q1, !.out = MQ(QFrac(2 * num, len * (len - 1)))]
CTI_Step(n, s, x) == [s EXCEPT !.q = Win_Push(n, s, x)]
(* computed in last() from the values held, with their count; clamped to [-1,1] *)
CTI_Out(n, s) ==
    LET w == s.q len == Len(w) IN
    IF len = 0 THEN MQ(QZero)
    ELSE LET r == CTI_Def(len, w) IN IF r[1] = "q" THEN MQ(r[2]) ELSE MF(FMax(FNeg(FOne), FMin(FOne, r[2])))

(* Ema: seeded with the first value, counter-gated *)
Ema_Init(n, alpha) == [alpha |-> alpha, lastema |-> QZero, out |-> QZero, cnt |-> 0, p |-> FALSE]
Ema_Step(n, s, x) ==
    LET w == QDiv(s.alpha, QI(n + 1)) IN
    IF s.cnt = 0 THEN [s EXCEPT !.cnt = 1, !.out = x, !.lastema = x]
    ELSE LET o == QNorm(QAdd(QMul(x, w), QMul(s.lastema, QSub(QOne, w)))) IN [s EXCEPT !.cnt = @ + 1, !.out = o, !.lastema = o]
Ema_Out(n, s) == IF s.cnt < n THEN MNone ELSE MQ(s.out)

(* LaguerreFilter: keeps the two most recent values of each stage *)
LagF_Init(g) == [g |-> g, l |-> <<<<>>, <<>>, <<>>, <<>>>>, filt |-> MNone, p |-> FALSE]
Keep2(sq) == IF Len(sq) > 2 THEN Tail(sq) ELSE sq
LagF_Step(s, x) ==
    IF s.l[1] = <<>> THEN [s EXCEPT !.l = <<<<x>>, <<x>>, <<x>>, <<x>>>>, !.filt = MQ(x)]
    ELSE LET prev == <<Last(s.l[1]), Last(s.l[2]), Last(s.l[3]), Last(s.l[4])>>
             nw == LagStep(s.g, prev, x)
         IN  [s EXCEPT !.l = [i \in 1..4 |-> Keep2(Push(s.l[i], nw[i]))],
                       !.filt = MQ(QDiv(QAdd(QAdd(nw[1], QScale(2, nw[2])), QAdd(QScale(2, nw[3]), nw[4])), QI(6)))]
LagF_Out(s) == s.filt

(* LaguerreRSI: four queues of at most three values; the first two updates only push zeros *)
LagR_Init(n) == [g |-> QFrac(2, n + 1), l |-> <<<<>>, <<>>, <<>>, <<>>>>, val |-> MNone, p |-> FALSE]
LagR_Step(s, x) ==
    LET l0 == IF Len(s.l[1]) >= 3 THEN [i \in 1..4 |-> Tail(s.l[i])] ELSE s.l IN
    IF Len(l0[1]) < 2 THEN [s EXCEPT !.l = [i \in 1..4 |-> Push(l0[i], QZero)]]
    ELSE LET prev == <<Last(l0[1]), Last(l0[2]), Last(l0[3]), Last(l0[4])>>
             nw == LagStep(s.g, prev, x)
             up(a, b) == IF QLe(b, a) THEN QSub(a, b) ELSE QZero
             dn(a, b) == IF QLe(b, a) THEN QZero ELSE QSub(b, a)
             cu == QAdd(QAdd(up(nw[1], nw[2]), up(nw[2], nw[3])), up(nw[3], nw[4]))
             cd == QAdd(QAdd(dn(nw[1], nw[2]), dn(nw[2], nw[3])), dn(nw[3], nw[4]))
         IN  [s EXCEPT !.l = [i \in 1..4 |-> Push(l0[i], nw[i])],
                       !.val = IF QIsZero(QAdd(cu, cd)) THEN @ ELSE MQ(QDiv(cu, QAdd(cu, cd)))]
LagR_Out(s) == s.val

(* CyberCycle: four prices, three smoothed values, three cycle values *)
Cyb_Init(n) == [a |-> QFrac(2, n + 1), vals |-> <<>>, sm |-> <<>>, out |-> <<>>, cnt |-> 0, p |-> FALSE]
Keep(sq, k) == IF Len(sq) > k THEN SubSeq(sq, Len(sq) - k + 1, Len(sq)) ELSE sq
Cyb_Step(n, s, x) ==
    LET s0 == IF s.vals = <<>> THEN [s EXCEPT !.vals = <<x, x, x>>, !.sm = <<x, x>>, !.out = <<QZero, QZero>>] ELSE s
        v == Keep(Push(s0.vals, x), 4)
        smv == QDiv(QAdd(QAdd(v[4], QScale(2, v[3])), QAdd(QScale(2, v[2]), v[1])), QI(6))
        sm == Keep(Push(s0.sm, smv), 3)
        o2 == Keep(s0.out, 2)
        a == s0.a
        cc == IF s0.cnt + 1 < n THEN QZero
              ELSE QNorm(QSub(QAdd(QMul(QSq(QSub(QOne, QDiv(a, Two))), QAdd(QSub(sm[3], QScale(2, sm[2])), sm[1])),
                                   QMul(QScale(2, QSub(QOne, a)), o2[2])),
                              QMul(QSq(QSub(QOne, a)), o2[1])))
    IN  [s0 EXCEPT !.vals = v, !.sm = sm, !.out = Push(o2, cc), !.cnt = @ + 1]
Cyb_Out(n, s) == IF s.out = <<>> THEN MNone ELSE MQ(Last(s.out))

-----------------------------------------------------------------------------
(* rolling *)
WR_Init == [mean |-> QZero, s |-> QZero, cnt |-> 0, p |-> FALSE]
WR_Step(st, x) ==
    LET c == st.cnt + 1
        m1 == QNorm(QAdd(st.mean, QDiv(QSub(x, st.mean), QI(c))))
    IN  [st EXCEPT !.cnt = c, !.mean = m1, !.s = QNorm(QAdd(@, QMul(QSub(x, st.mean), QSub(x, m1))))]
WR_Var(st) == IF st.cnt > 1 THEN QDiv(st.s, QI(st.cnt)) ELSE QZero
WR_Out(st) == IF st.cnt = 0 THEN MNone ELSE MSq(WR_Var(st))

(* peak starts at the smallest float, min_after_peak at the largest: modelled as "unset" *)
DD_Init == [dd |-> QZero, peak |-> MNone, low |-> MNone, p |-> FALSE]
DD_Step(s, x) ==
    LET newpeak == s.peak = MNone \/ QLt(s.peak[2], x)
        pk == IF newpeak THEN x ELSE s.peak[2]
        lo0 == IF newpeak THEN x ELSE s.low[2]
        lo == QMin(lo0, x)
        dd == QDiv(QSub(pk, lo), pk)
    IN  [s EXCEPT !.peak = MQ(pk), !.low = MQ(lo), !.dd = QMax(@, dd)]
DD_Out(s) == MQ(s.dd)

LnR_Init == [lastv |-> QZero, cur |-> QZero, p |-> FALSE]
LnR_Step(s, x) == [s EXCEPT !.lastv = s.cur, !.cur = x]
LnR_Out(s) == IF QIsZero(s.lastv) THEN MNone ELSE MF(FLn(FFromQ(QDiv(s.cur, s.lastv))))

(* pure functions with own state *)
Echo_Init == [out |-> MNone, p |-> FALSE]
Echo_Step(s, x) == [s EXCEPT !.out = MQ(x)]
Clip_Step(s, x, c, isgte) == [s EXCEPT !.out = MQ(IF isgte THEN (IF QLe(c, x) THEN x ELSE c) ELSE (IF QLe(x, c) THEN x ELSE c))]

-----------------------------------------------------------------------------
(* fixed-point machines (coefficients are evaluated once, in Init, as the code does in new()) *)
SS_Init(n) == [co |-> SSCoef(n, AngleA(n)), i |-> 0, filt |-> FZero, f1 |-> FZero, f2 |-> FZero, lastv |-> FZero, p |-> FALSE]
SS_Step(s, x) ==
    LET f == FAdd(FAdd(FDivInt(FMul(s.co[1], FAdd(x, s.lastv)), 2), FMul(s.co[2], s.f1)), FMul(s.co[3], s.f2))
    IN  [s EXCEPT !.filt = f, !.f2 = s.f1, !.f1 = f, !.lastv = x, !.i = @ + 1]
SS_Out(n, s) == IF s.i < n THEN MNone ELSE MF(s.filt)

Roof_Init(n, m) ==
    LET ang == AngleA(n)
        a1 == FDiv(FSub(FAdd(FCos(ang), FSin(ang)), FOne), FCos(ang))
    IN  [k1 |-> FSq(FSub(FOne, FDivInt(a1, 2))), k2 |-> FMul(FTwo, FSub(FOne, a1)), k3 |-> FSq(FSub(FOne, a1)),
         ss |-> SS_Init(m), i |-> 0, v1 |-> FZero, v2 |-> FZero, hp1 |-> FZero, hp2 |-> FZero, p |-> FALSE]
Roof_Step(n, s, x) ==
    LET hp == FSub(FAdd(FMul(s.k1, FAdd(FSub(x, FMul(FTwo, s.v1)), s.v2)), FMul(s.k2, s.hp1)), FMul(s.k3, s.hp2))
    IN  [s EXCEPT !.hp2 = s.hp1, !.hp1 = hp, !.v2 = s.v1, !.v1 = x, !.i = @ + 1,
                  !.ss = IF s.i > n THEN SS_Step(@, hp) ELSE @]
Roof_Out(m, s) == SS_Out(m, s.ss)

(* TrendFlex / ReFlex: the queue of filter values doubles as the filter's memory.  Since the fix "differences below 16 ulps of
   the smoothed value are rounding noise" (trend_flex.rs / re_flex.rs NOISE_ULPS) a mean difference d with |d| <= 16 * 2^-52 * |filt|
   counts as 0: on a flat input the f64 smoother ends in a limit cycle a few ulps wide, which the normalisation d / sqrt(ms)
   blew up to order one while the exact value decays to 0. *)
TwoP52 == WMul(WFromInt(67108864), WFromInt(67108864))
FlexFloor(d, filt) == IF WCmp(WMul(WAbs(d), TwoP52), WMul(WFromInt(16), WAbs(filt))) <= 0 THEN FZero ELSE d
Flex_Init(n) == [co |-> FlexCoef(n), lastv |-> FZero, lastm |-> FZero, q |-> <<>>, out |-> MNone, p |-> FALSE]
Flex_Step(n, s, x, reflex) ==
    LET lv == IF s.q = <<>> THEN x ELSE s.lastv
        q0 == IF Len(s.q) >= n /\ s.q # <<>> THEN Tail(s.q) ELSE s.q
        l == Len(q0)
        base == FDivInt(FMul(s.co[1], FAdd(x, lv)), 2)
        filt == IF l = 0 THEN base
                ELSE IF l = 1 THEN FAdd(base, FMul(s.co[2], q0[l]))
                ELSE FAdd(FAdd(base, FMul(s.co[2], q0[l])), FMul(s.co[3], q0[l - 1]))
        q1 == Push(q0, filt)
        len == Len(q1)
        slope == FDivInt(FSub(q1[1], filt), n)
        dsum == IF reflex THEN FSumFrom(Force([i \in 1..len |-> FSub(FAdd(filt, FMulInt(i - 1, slope)), q1[len - i + 1])]), 1)
                ELSE FSumFrom(Force([i \in 1..len |-> FSub(filt, q1[len - i + 1])]), 1)
        d == FlexFloor(FDivInt(dsum, n), filt)
        ms == FAdd(FMul(FQ(4, 100), FSq(d)), FMul(FQ(96, 100), s.lastm))
        out == IF ms[1] > 0 THEN MF(FDiv(d, FSqrt(ms))) ELSE (IF reflex THEN s.out ELSE MQ(QZero))
    IN  [s EXCEPT !.lastv = x, !.lastm = ms, !.q = q1, !.out = out]

(* Alma: positional weights evaluated in Init, weighted mean recomputed over the window *)
(* Alma: the exponents of the positional Gaussian weights are fixed in Init; the weighted mean is recomputed over the
   window.  Weights are taken relative to the largest one among the positions in use (the normalisation cancels the
   factor), so that a narrow kernel underflows the 20 fixed-point decimals no more than it underflows an f64. *)
Alma_Init(n, sigma, offset) ==
    [es |-> Force([k \in 1..n |-> AlmaExpo(n, k, sigma, offset)]), wfull |-> AlmaWeights(n, sigma, offset), q |-> <<>>, out |-> MNone, p |-> FALSE]
Alma_Step(n, s, x) ==
    LET q1 == Win_Push(n, s, x) len == Len(q1)
        es == SubSeq(s.es, 1, len)
        e0 == QMinSeq(es)
        ws == IF len = n THEN s.wfull ELSE Force([k \in 1..len |-> FExp(FFromQ(QSub(e0, es[k])))])
    IN  [s EXCEPT !.q = q1, !.out = IF AllEqual(q1) THEN MQ(q1[1]) ELSE MF(FDiv(FDotFrom(ws, q1, 1), FSumFrom(ws, 1)))]

-----------------------------------------------------------------------------
(* views that own a second slot: the supplied moving average (a tree over Echo, state `ma`) is fed the DERIVED value.
   These steps return <<own state, derived value or <<"n">> >>; the tree functions below step the average. *)

(* EhlersFisherTransform: window high/low with rescan on eviction, min-max normalisation, clamp, Fisher recursion;
   only the two most recent outputs are kept *)
EFT_Init(n) == [q |-> <<>>, high |-> QZero, low |-> QZero, qout |-> <<>>, p |-> FALSE]
EFT_Window(n, s, x) ==
    LET s0 == IF s.q = <<>> THEN [s EXCEPT !.high = x, !.low = x] ELSE s
        ev == Len(s0.q) >= n /\ s0.q # <<>>
        old == Head(s0.q)
        q1 == IF ev THEN Tail(s0.q) ELSE s0.q
        hi1 == IF ev THEN (IF q1 = <<>> THEN x ELSE IF QLe(s0.high, old) THEN QMaxSeq(q1) ELSE s0.high) ELSE s0.high
        lo1 == IF ev THEN (IF q1 = <<>> THEN x ELSE IF QLe(old, s0.low) THEN QMinSeq(q1) ELSE s0.low) ELSE s0.low
        hi2 == IF QLt(hi1, x) THEN x ELSE hi1
        lo2 == IF QLt(hi1, x) THEN lo1 ELSE IF QLt(x, lo1) THEN x ELSE lo1
    IN  [s0 EXCEPT !.q = Push(q1, x), !.high = hi2, !.low = lo2]
EFT_PushOut(s, f) == [s EXCEPT !.qout = Keep(Push(@, f), 2)]
(* the value handed to the moving average in this step, or none when the window is flat *)
EFT_Derived(s, x) == IF QEq(s.high, s.low) THEN MNone
                     ELSE MQ(QScale(2, QSub(QDiv(QSub(x, s.low), QSub(s.high, s.low)), QFrac(1, 2))))
(* after the average has answered `m` (none: nothing to do) *)
EFT_Finish(s, m) ==
    IF m = MNone THEN s
    ELSE LET sm == FMax(FQ(-99, 100), FMin(FQ(99, 100), VF(m))) IN
         IF s.qout = <<>> THEN EFT_PushOut(s, FZero)
         ELSE EFT_PushOut(s, FAdd(FDivInt(FLn(FDiv(FAdd(FOne, sm), FSub(FOne, sm))), 2), FDivInt(Last(s.qout), 2)))
EFT_Out(s) == IF s.qout = <<>> THEN MNone ELSE MF(Last(s.qout))

(* PolarizedFractalEfficiency (window_len >= 3) *)
PFE_Init(n) == [q |-> <<>>, out |-> MNone, p |-> FALSE]
PFE_Window(n, s, x) == [s EXCEPT !.q = Win_Push(n, s, x)]
PFE_Derived(n, s, x) ==
    IF Len(s.q) < n THEN MNone
    ELSE LET q == s.q
             path == FSumFrom(Force([i \in 1..(n - 2) |-> FSqrt(FFromQ(QAdd(QSq(QSub(q[n - i + 1], q[n - i])), QOne)))]), 1)
             pp == FDiv(FSqrt(FFromQ(QAdd(QSq(QSub(x, q[1])), QI(n * n)))), path)
         IN  MF(IF QLt(x, q[n - 1]) THEN FNeg(pp) ELSE pp)

-----------------------------------------------------------------------------
(* the tree of machines *)
RECURSIVE TM_Init(_), TM_Step(_, _, _), TM_Out(_, _), TM_Cells(_, _), TM_Panicked(_, _), TwoSlotStep(_, _, _, _)

Own_Init(node) ==
    CASE node.k = "Sma" -> Sma_Init(node.n)
      [] node.k = "Cumulative" -> Cum_Init(node.n)
      [] node.k \in {"Min", "Max"} -> Ext_Init(node.n)
      [] node.k = "WelfordOnline" -> Wel_Init(node.n)
      [] node.k \in {"Vst", "Vsct"} -> Vst_Init(node.n)
      [] node.k = "HLNormalizer" -> HL_Init(node.n)
      [] node.k = "Roc" -> Roc_Init(node.n)
      [] node.k = "BinaryEntropy" -> BE_Init(node.n)
      [] node.k = "Rsi" -> Rsi_Init(node.n)
      [] node.k = "MyRSI" -> MyRsi_Init(node.n)
      [] node.k \in {"CenterOfGravity", "NoiseEliminationTechnology", "CorrelationTrendIndicator"} -> Win_Init(node.n)
      [] node.k = "Ema" -> Ema_Init(node.n, AlphaOf(node))
      [] node.k = "LaguerreFilter" -> LagF_Init(ParamQ(node.g))
      [] node.k = "LaguerreRSI" -> LagR_Init(node.n)
      [] node.k = "CyberCycle" -> Cyb_Init(node.n)
      [] node.k = "WelfordRolling" -> WR_Init
      [] node.k = "Drawdown" -> DD_Init
      [] node.k = "LnReturn" -> LnR_Init
      [] node.k \in {"Echo", "Probe", "GTE", "LTE"} -> Echo_Init
      [] node.k = "SuperSmoother" -> SS_Init(node.n)
      [] node.k = "RoofingFilter" -> Roof_Init(node.n, node.m)
      [] node.k \in {"TrendFlex", "ReFlex"} -> Flex_Init(node.n)
      [] node.k = "Alma" -> Alma_Init(node.n, SigmaOf(node), OffsetOf(node))
      [] node.k = "EhlersFisherTransform" -> EFT_Init(node.n)
      [] node.k = "PolarizedFractalEfficiency" -> PFE_Init(node.n)
      [] OTHER -> [p |-> FALSE]

(* does this specification have a machine for the node (and everything below it)? *)
RECURSIVE Modelled(_)
Modelled(node) ==
    /\ node.k \notin {"Tap", "Decomp"}
    /\ (node.k = "PolarizedFractalEfficiency" => node.n >= 3)
    /\ (~HasField(node, "c") \/ \A i \in 1..Len(node.c) : Modelled(node.c[i]))

Own_Step(node, s, v) ==
    LET x == VQ(v) xf == VF(v) IN
    CASE node.k = "Sma" -> Sma_Step(node.n, s, x)
      [] node.k = "Cumulative" -> Cum_Step(node.n, s, x)
      [] node.k = "Min" -> Ext_Step(node.n, s, x, TRUE)
      [] node.k = "Max" -> Ext_Step(node.n, s, x, FALSE)
      [] node.k = "WelfordOnline" -> Wel_Step(node.n, s, x)
      [] node.k \in {"Vst", "Vsct"} -> Vst_Step(node.n, s, x)
      [] node.k = "HLNormalizer" -> HL_Step(node.n, s, x)
      [] node.k = "Roc" -> Roc_Step(node.n, s, x)
      [] node.k = "BinaryEntropy" -> BE_Step(node.n, s, x)
      [] node.k = "Rsi" -> Rsi_Step(node.n, s, x)
      [] node.k = "MyRSI" -> MyRsi_Step(node.n, s, x)
      [] node.k = "CenterOfGravity" -> CoG_Step(node.n, s, x)
      [] node.k = "NoiseEliminationTechnology" -> NET_Step(node.n, s, x)
      [] node.k = "CorrelationTrendIndicator" -> CTI_Step(node.n, s, x)
      [] node.k = "Ema" -> Ema_Step(node.n, s, x)
      [] node.k = "LaguerreFilter" -> LagF_Step(s, x)
      [] node.k = "LaguerreRSI" -> LagR_Step(s, x)
      [] node.k = "CyberCycle" -> Cyb_Step(node.n, s, x)
      [] node.k = "WelfordRolling" -> WR_Step(s, x)
      [] node.k = "Drawdown" -> DD_Step(s, x)
      [] node.k = "LnReturn" -> LnR_Step(s, x)
      [] node.k \in {"Echo", "Probe"} -> Echo_Step(s, x)
      [] node.k = "GTE" -> Clip_Step(s, x, ParamQ(node.v), TRUE)
      [] node.k = "LTE" -> Clip_Step(s, x, ParamQ(node.v), FALSE)
      [] node.k = "SuperSmoother" -> SS_Step(s, xf)
      [] node.k = "RoofingFilter" -> Roof_Step(node.n, s, xf)
      [] node.k = "TrendFlex" -> Flex_Step(node.n, s, xf, FALSE)
      [] node.k = "ReFlex" -> Flex_Step(node.n, s, xf, TRUE)
      [] node.k = "Alma" -> Alma_Step(node.n, s, x)
      [] OTHER -> s

Own_Out(node, s) ==
    CASE node.k = "Sma" -> Sma_Out(node.n, s)
      [] node.k = "Cumulative" -> Cum_Out(node.n, s)
      [] node.k \in {"Min", "Max"} -> Ext_Out(node.n, s)
      [] node.k = "WelfordOnline" -> Wel_Out(node.n, s)
      [] node.k = "Vst" -> Vst_Out(node.n, s)
      [] node.k = "Vsct" -> Vsct_Out(node.n, s)
      [] node.k = "HLNormalizer" -> HL_Out(node.n, s)
      [] node.k = "Roc" -> Roc_Out(node.n, s)
      [] node.k = "BinaryEntropy" -> BE_Out(node.n, s)
      [] node.k = "Rsi" -> Rsi_Out(node.n, s)
      [] node.k = "MyRSI" -> MyRsi_Out(node.n, s)
      [] node.k \in {"CenterOfGravity", "NoiseEliminationTechnology"} -> s.out
      [] node.k = "CorrelationTrendIndicator" -> CTI_Out(node.n, s)
      [] node.k = "Ema" -> Ema_Out(node.n, s)
      [] node.k = "LaguerreFilter" -> LagF_Out(s)
      [] node.k = "LaguerreRSI" -> LagR_Out(s)
      [] node.k = "CyberCycle" -> Cyb_Out(node.n, s)
      [] node.k = "WelfordRolling" -> WR_Out(s)
      [] node.k = "Drawdown" -> DD_Out(s)
      [] node.k = "LnReturn" -> LnR_Out(s)
      [] node.k \in {"Echo", "Probe", "GTE", "LTE"} -> s.out
      [] node.k = "SuperSmoother" -> SS_Out(node.n, s)
      [] node.k = "RoofingFilter" -> Roof_Out(node.m, s)
      [] node.k \in {"TrendFlex", "ReFlex", "Alma"} -> s.out
      [] node.k = "Constant" -> MQ(ParamQ(node.v))
      [] OTHER -> MNone

(* state of a tree: <<own state, state of child 1, state of child 2>> (absent children: <<>>) *)
Leaf(node) == node.k \in LeafKinds
TwoSlot == {"EhlersFisherTransform", "PolarizedFractalEfficiency"}
Kid(node, i) == ChildOf(node, i)
TM_Init(node) ==
    IF Leaf(node) THEN <<Own_Init(node), <<>>, <<>>>>
    ELSE IF node.k \in BinaryKinds THEN <<[p |-> FALSE], TM_Init(Kid(node, 1)), TM_Init(Kid(node, 2))>>
    ELSE IF node.k \in TwoSlot THEN <<Own_Init(node), TM_Init(Kid(node, 1)), TM_Init(Kid(node, 2))>>
    ELSE <<Own_Init(node), TM_Init(Kid(node, 1)), <<>>>>

(* out of the input domain (zero divisor): the machine makes no statement *)
MUndef == <<"undef">>
BinOut(k, a, b) ==
    IF a = MUndef \/ b = MUndef THEN MUndef
    ELSE IF a = MNone \/ b = MNone THEN MNone
    ELSE IF a[1] = "q" /\ b[1] = "q" THEN
        CASE k = "Add" -> MQ(QAdd(a[2], b[2])) [] k = "Subtract" -> MQ(QSub(a[2], b[2]))
          [] k = "Multiply" -> MQ(QMul(a[2], b[2])) [] k = "Divide" -> IF QIsZero(b[2]) THEN MUndef ELSE MQ(QDiv(a[2], b[2]))
    ELSE CASE k = "Add" -> MF(FAdd(VF(a), VF(b))) [] k = "Subtract" -> MF(FSub(VF(a), VF(b)))
           [] k = "Multiply" -> MF(FMul(VF(a), VF(b))) [] k = "Divide" -> IF VF(b)[1] = 0 THEN MUndef ELSE MF(FDiv(VF(a), VF(b)))

TM_Out(node, st) ==
    IF node.k \in BinaryKinds THEN BinOut(node.k, TM_Out(Kid(node, 1), st[2]), TM_Out(Kid(node, 2), st[3]))
    ELSE IF node.k = "Tanh" THEN LET o == TM_Out(Kid(node, 1), st[2]) IN
                                  IF o = MNone \/ o = MUndef THEN o ELSE IF o[1] = "q" /\ QIsZero(o[2]) THEN MQ(QZero) ELSE MF(FTanh(VF(o)))
    ELSE IF node.k = "EhlersFisherTransform" THEN EFT_Out(st[1])
    ELSE IF node.k = "PolarizedFractalEfficiency" THEN st[1].out
    ELSE Own_Out(node, st[1])

(* the second slot: own window first, then the moving average is stepped with the derived value (if any) *)
TwoSlotStep(node, st, kid, v) ==
    LET x == VQ(v) IN
    IF node.k = "EhlersFisherTransform" THEN
        LET w == EFT_Window(node.n, st[1], x)
            d == EFT_Derived(w, x)
        IN  IF d = MNone THEN <<EFT_PushOut(w, FZero), kid, st[3]>>
            ELSE LET ma == TM_Step(Kid(node, 2), st[3], d[2]) IN <<EFT_Finish(w, TM_Out(Kid(node, 2), ma)), kid, ma>>
    ELSE
        LET w == PFE_Window(node.n, st[1], x)
            d == PFE_Derived(node.n, w, x)
        IN  IF d = MNone THEN <<w, kid, st[3]>>
            ELSE LET ma == TM_Step(Kid(node, 2), st[3], VQ(d)) IN <<[w EXCEPT !.out = TM_Out(Kid(node, 2), ma)], kid, ma>>

(* update: children first; a unary node whose child reports None leaves its own state untouched *)
TM_Step(node, st, raw) ==
    IF Leaf(node) THEN <<Own_Step(node, st[1], MQ(raw)), <<>>, <<>>>>
    ELSE IF node.k \in BinaryKinds THEN <<st[1], TM_Step(Kid(node, 1), st[2], raw), TM_Step(Kid(node, 2), st[3], raw)>>
    ELSE LET kid == TM_Step(Kid(node, 1), st[2], raw)
             o == TM_Out(Kid(node, 1), kid)
         IN  IF o = MNone \/ o = MUndef THEN <<st[1], kid, st[3]>>
             ELSE IF node.k \in TwoSlot THEN TwoSlotStep(node, st, kid, o)
             ELSE <<Own_Step(node, st[1], o), kid, <<>>>>

OwnCells(node, s) ==
    CASE node.k \in {"Sma", "Cumulative", "Min", "Max", "HLNormalizer", "Roc", "BinaryEntropy", "Rsi", "MyRSI", "CenterOfGravity",
                     "NoiseEliminationTechnology", "CorrelationTrendIndicator", "TrendFlex", "ReFlex"} -> Len(s.q)
      [] node.k = "WelfordOnline" -> Len(s.q)
      [] node.k \in {"Vst", "Vsct"} -> Len(s.w.q)
      [] node.k = "Alma" -> 2 * Len(s.q) + Len(s.es)
      [] node.k \in {"LaguerreFilter", "LaguerreRSI"} -> Len(s.l[1]) + Len(s.l[2]) + Len(s.l[3]) + Len(s.l[4])
      [] node.k = "CyberCycle" -> Len(s.vals) + Len(s.sm) + Len(s.out)
      [] node.k = "EhlersFisherTransform" -> Len(s.q) + Len(s.qout)
      [] node.k = "PolarizedFractalEfficiency" -> Len(s.q)
      [] OTHER -> 0
TM_Cells(node, st) ==
    OwnCells(node, st[1]) + (IF st[2] = <<>> THEN 0 ELSE TM_Cells(Kid(node, 1), st[2])) + (IF st[3] = <<>> THEN 0 ELSE TM_Cells(Kid(node, 2), st[3]))
TM_Panicked(node, st) ==
    st[1].p \/ (st[2] # <<>> /\ TM_Panicked(Kid(node, 1), st[2])) \/ (st[3] # <<>> /\ TM_Panicked(Kid(node, 2), st[3]))
=============================================================================
