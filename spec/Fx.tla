--------------------------------- MODULE Fx ---------------------------------
(***************************************************************************)
(* High-precision fixed point on Wide integers: the value v is the wide    *)
(* integer round(v * 10^20).  Used where the crate's definitions involve   *)
(* exp, cos, sin, ln, sqrt or tanh (class R views).  The specification has  *)
(* no model of IEEE rounding; Fx is simply 20 decimals of the real-number   *)
(* definition, eight orders below the resolution at which observations of   *)
(* the implementation are logged (10^-12).  FxTest.tla validates the        *)
(* series against 50-digit references (lib/gen_fx_vectors.py).              *)
(***************************************************************************)
EXTENDS Rat

FLimbs == 5                       \* 10^20 = Base^5
FOne   == WPow10(20)
FZero  == WZero
FHalf  == WDiv(FOne, WFromInt(2))
FLN2   == <<1, <<942, 9453, 559, 4718, 6931>>>>          \* ln 2
FPI    == <<1, <<3846, 7932, 3589, 9265, 1415, 3>>>>     \* pi
FTWOPI == <<1, <<7693, 5864, 7179, 8530, 2831, 6>>>>     \* 2 pi

FFromInt(i)  == WShift(WFromInt(i), FLimbs)
(* nearest fixed-point value of a rational *)
FFromQ(q)    == WDivRound(WShift(q[1], FLimbs), q[2])
FFrac(i, u)  == FFromQ(QFrac(i, u))
FToQ(f)      == <<f, FOne>>
FAdd(a, b)   == WAdd(a, b)
FSub(a, b)   == WSub(a, b)
FNeg(a)      == WNeg(a)
FAbs(a)      == WAbs(a)
FMul(a, b)   == WDivRound(WMul(a, b), FOne)
FDiv(a, b)   == IF b[1] > 0 THEN WDivRound(WShift(a, FLimbs), b)
                ELSE WDivRound(WShift(WNeg(a), FLimbs), WNeg(b))
FSq(a)       == FMul(a, a)
FSqrt(a)     == WISqrt(WShift(a, FLimbs))        \* a >= 0
FMulInt(k, a) == WMul(WFromInt(k), a)
FDivInt(a, k) == IF k > 0 THEN WDivRound(a, WFromInt(k)) ELSE WDivRound(WNeg(a), WFromInt(-k))
FCmp(a, b)   == WCmp(a, b)
FLe(a, b)    == WCmp(a, b) <= 0
FLt(a, b)    == WCmp(a, b) < 0
FMax(a, b)   == WMax(a, b)
FMin(a, b)   == WMin(a, b)
FSign(a)     == a[1]

RECURSIVE WPow2(_)
WPow2(k) == IF k = 0 THEN WOne ELSE WMul(<<1, <<2>>>>, WPow2(k - 1))

(* exp: x = k ln2 + r, |r| <= ln2/2, Taylor for e^r, then shift by 2^k *)
RECURSIVE ExpSeries(_, _, _, _)
ExpSeries(r, term, n, acc) ==
    IF term[1] = 0 THEN acc
    ELSE LET t == WDivRound(FMul(term, r), WFromInt(n)) IN ExpSeries(r, t, n + 1, WAdd(acc, t))
FExp(x) ==
    LET k == WToInt(WDivRound(x, FLN2))
        r == WSub(x, WMul(WFromInt(k), FLN2))
        e == ExpSeries(r, FOne, 1, FOne)
    IN  IF k >= 0 THEN WMul(e, WPow2(k)) ELSE WDivRound(e, WPow2(-k))

(* ln: x = m 2^k with m in [3/4, 3/2), ln m = 2 atanh((m-1)/(m+1)) *)
RECURSIVE LnReduce(_, _)
LnReduce(x, k) ==
    IF WCmp(WMul(x, <<1, <<2>>>>), WMul(FOne, <<1, <<3>>>>)) >= 0 THEN LnReduce(WDivRound(x, <<1, <<2>>>>), k + 1)
    ELSE IF WCmp(WMul(x, <<1, <<4>>>>), WMul(FOne, <<1, <<3>>>>)) < 0 THEN LnReduce(WMul(x, <<1, <<2>>>>), k - 1)
    ELSE <<x, k>>
RECURSIVE AtanhSeries(_, _, _, _)
AtanhSeries(z2, pow, n, acc) ==
    IF pow[1] = 0 THEN acc
    ELSE LET p == FMul(pow, z2) IN AtanhSeries(z2, p, n + 2, WAdd(acc, FDivInt(p, n + 2)))
FLn(x) ==
    LET mk == LnReduce(x, 0)
        m  == mk[1]
        z  == FDiv(WSub(m, FOne), WAdd(m, FOne))
        s  == AtanhSeries(FSq(z), z, 1, z)
    IN  WAdd(WMul(<<1, <<2>>>>, s), WMul(WFromInt(mk[2]), FLN2))
FLog2(x) == FDiv(FLn(x), FLN2)

(* cos / sin: reduce to [-pi, pi], Taylor *)
RECURSIVE TrigSeries(_, _, _, _)
TrigSeries(r2, term, n, acc) ==
    IF term[1] = 0 THEN acc
    ELSE LET t == WNeg(FDivInt(FMul(term, r2), n * (n + 1))) IN TrigSeries(r2, t, n + 2, WAdd(acc, t))
TrigReduce(x) == WSub(x, WMul(WDivRound(x, FTWOPI), FTWOPI))
FCos(x) == LET r == TrigReduce(x) IN TrigSeries(FSq(r), FOne, 1, FOne)
FSin(x) == LET r == TrigReduce(x) IN TrigSeries(FSq(r), r, 2, r)

FTanh(x) == LET e == FExp(WMul(<<1, <<2>>>>, x)) IN FDiv(WSub(e, FOne), WAdd(e, FOne))
=============================================================================
