INIT InitT
NEXT NextT
INVARIANT EmitT
CHECK_DEADLOCK FALSE
