
