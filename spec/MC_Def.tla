------------------------------- MODULE MC_Def -------------------------------
(***************************************************************************)
(* "The view equals its definition" (C02, C04 recurrence/kernel clauses,   *)
(* C05, C06, C11, C13, C14), invariant family 2 of DESIGN.md 3.2: the REAL *)
(* observation at every node of the behaviour tree must match the          *)
(* definition (Defs.tla / DefsR.tla / Tree.tla) evaluated on the history   *)
(* that leads there.  Which property a run decides is named by the scope.  *)
(***************************************************************************)
EXTENDS Prod

Prop == Scope.prop
HasExtras == "x" \in DOMAIN Line(c, 0)

ValueOK == LET r == TreeDef(Cfg, Raw) IN
           /\ Tally("def." \o r[1])
           /\ Matches(ObsNow, ObsPrev, r, EpsQ)
ExtraOK(name) ==
    \/ ~HasExtras \/ Cfg.k \notin {"WelfordOnline", "WelfordRolling"} \/ ~OIsValue(ObsNow)
    \/ Matches(ExtraNow(name), <<"n">>, ExtraDef(Cfg, name, Raw), EpsQ)

Verdict == /\ Tally("states")
           /\ (ValueOK \/ Report(Prop, "value"))
           /\ (ExtraOK("mean") \/ Report(Prop, "mean"))
=============================================================================
