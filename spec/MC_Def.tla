------------------------------- MODULE MC_Def -------------------------------
(***************************************************************************)
(* "The view equals its definition" (C02, C04 recurrence/kernel clauses,   *)
(* C05, C06, C11, C13, C14), invariant family 2 of DESIGN.md 3.2: the REAL *)
(* observation at every node of the behaviour tree must match the          *)
(* definition (Defs.tla / DefsR.tla / Tree.tla) evaluated on the history   *)
(* that leads there.  Which property a run decides is named by the scope.  *)
(***************************************************************************)
EXTENDS Prod, IEEE

Prop == Scope.prop
HasExtras == "x" \in DOMAIN Line(c, 0)

ValueOK == LET r == TreeDef(Cfg, Raw) IN
           /\ Tally("def." \o r[1])
           /\ Matches(ObsNow, ObsPrev, r, EpsQ)
ExtraOK(name) ==
    \/ ~HasExtras \/ Cfg.k \notin {"WelfordOnline", "WelfordRolling"} \/ ~OIsValue(ObsNow)
    \/ Matches(ExtraNow(name), <<"n">>, ExtraDef(Cfg, name, Raw), EpsQ)

(* C14 "bit-exactly": when the definition's answer is a dyadic rational with at most 12 binary places and
   the operands reach the node without any rounding (children that are Echo, Constant or Sma(1|2|4) over
   Echo; dyadic inputs), IEEE arithmetic must return exactly that number *)
ExactKid(n) == \/ n.k \in {"Echo", "Constant", "Probe"}
               \/ (n.k = "Sma" /\ n.n \in {1, 2, 4} /\ ~HasField(n, "c"))
PointwiseExact == /\ Cfg.k \in {"Add", "Subtract", "Multiply", "Divide", "GTE", "LTE", "Echo", "Constant"}
                  /\ ExactKid(ChildOf(Cfg, 1)) /\ ExactKid(ChildOf(Cfg, 2))
BitExactOK == LET r == TreeDef(Cfg, Raw) IN
              \/ ~HasField(Scope, "bitexact") \/ ~PointwiseExact
              \/ r[1] # "q" \/ ~QIsDyadic12(r[2])
              \/ (Tally("bitexact") /\ OExactlyQ(ObsNow, r[2]))

(* C14 "bit-exactly", in general: a combinator configuration may name the positions (ia, ib) of its two children as
   stand-alone configurations of the same scope; their REAL answers at the same node are decoded exactly from their
   bit keys, and the combinator must report the correctly rounded (IEEE-754 nearest-even) result of that one operation.
   For Tanh the sibling `iref` is the harness' reference child.last().map(f64::tanh): the answers must be identical. *)
RoundedOK ==
    \/ ~HasField(Cfg, "ia")
    \/ LET a == ObsAt(Cfg.ia, Len(hist), idx) b == ObsAt(Cfg.ib, Len(hist), idx) IN
       \/ ~OIsSome(a) \/ ~OIsSome(b) \/ ~OIsSome(ObsNow)
       \/ LET qa == KeyQ(OKey(a)) qb == KeyQ(OKey(b))
              ex == CASE Cfg.k = "Add" -> QAdd(qa, qb) [] Cfg.k = "Subtract" -> QSub(qa, qb)
                      [] Cfg.k = "Multiply" -> QMul(qa, qb) [] Cfg.k = "Divide" -> IF QIsZero(qb) THEN QZero ELSE QDiv(qa, qb)
              \* IEEE-754 also fixes the sign of a zero result (round to nearest): a product or quotient is negative iff exactly
              \* one operand is; a sum is -0 only as (-0)+(-0), a difference only as (-0)-(+0)
              na == a[2] = 1  nb == b[2] = 1
              negzero == CASE Cfg.k \in {"Multiply", "Divide"} -> na # nb
                           [] Cfg.k = "Add" -> na /\ nb
                           [] Cfg.k = "Subtract" -> na /\ ~nb
          IN  (Cfg.k = "Divide" /\ QIsZero(qb)) \/ ~Judged(ex)
              \/ (/\ Tally("rounded") /\ OIsRounded(ObsNow, ex)
                  /\ (~QIsZero(ex) \/ (Tally("rounded.zero") /\ (ObsNow[2] = 1) = negzero)))
RefOK == \/ ~HasField(Cfg, "iref")
         \/ (Tally("ref") /\ OSame(ObsNow, ObsAt(Cfg.iref, Len(hist), idx)))

(* C14 "Echo reports the latest input, bit-exactly": also the sign of a zero (the input symbol NegZero is fed as -0.0) *)
EchoZeroOK == \/ Cfg.k # "Echo" \/ HasField(Cfg, "c") \/ Len(hist) = 0 \/ ~OIsSome(ObsNow)
              \/ ~QIsZero(Raw[Len(Raw)])
              \/ (Tally("echo.zero") /\ ((ObsNow[2] = 1) <=> (hist[Len(hist)] = NegZero)))

Verdict == /\ Tally("states")
           /\ (EchoZeroOK \/ Report(Prop, "bit-exact"))
           /\ (RoundedOK \/ Report(Prop, "bit-exact-rounding"))
           /\ (RefOK \/ Report(Prop, "bit-exact-reference"))
           /\ (BitExactOK \/ Report(Prop, "bit-exact"))
           /\ (ValueOK \/ Report(Prop, "value"))
           /\ (ExtraOK("mean") \/ Report(Prop, "mean"))
=============================================================================
