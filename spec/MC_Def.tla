------------------------------- MODULE MC_Def -------------------------------
(***************************************************************************)
(* "The view equals its definition" (C02, C04 recurrence/kernel clauses,   *)
(* C05, C06, C11, C13, C14), invariant family 2 of DESIGN.md 3.2: the REAL *)
(* observation at every node of the behaviour tree must match the          *)
(* definition (Defs.tla / DefsR.tla / Tree.tla) evaluated on the history   *)
(* that leads there.  Which property a run decides is named by the scope.  *)
(***************************************************************************)
EXTENDS Prod

Prop == Scope.prop
HasExtras == "x" \in DOMAIN Line(c, 0)

ValueOK == LET r == TreeDef(Cfg, Raw) IN
           /\ Tally("def." \o r[1])
           /\ Matches(ObsNow, ObsPrev, r, EpsQ)
ExtraOK(name) ==
    \/ ~HasExtras \/ Cfg.k \notin {"WelfordOnline", "WelfordRolling"} \/ ~OIsValue(ObsNow)
    \/ Matches(ExtraNow(name), <<"n">>, ExtraDef(Cfg, name, Raw), EpsQ)

(* C14 "bit-exactly": when the definition's answer is a dyadic rational with at most 12 binary places and
   the operands reach the node without any rounding (children that are Echo, Constant or Sma(1|2|4) over
   Echo; dyadic inputs), IEEE arithmetic must return exactly that number *)
ExactKid(n) == \/ n.k \in {"Echo", "Constant", "Probe"}
               \/ (n.k = "Sma" /\ n.n \in {1, 2, 4} /\ ~HasField(n, "c"))
PointwiseExact == /\ Cfg.k \in {"Add", "Subtract", "Multiply", "Divide", "GTE", "LTE", "Echo", "Constant"}
                  /\ ExactKid(ChildOf(Cfg, 1)) /\ ExactKid(ChildOf(Cfg, 2))
BitExactOK == LET r == TreeDef(Cfg, Raw) IN
              \/ ~HasField(Scope, "bitexact") \/ ~PointwiseExact
              \/ r[1] # "q" \/ ~QIsDyadic12(r[2])
              \/ (Tally("bitexact") /\ OExactlyQ(ObsNow, r[2]))

Verdict == /\ Tally("states")
           /\ (BitExactOK \/ Report(Prop, "bit-exact"))
           /\ (ValueOK \/ Report(Prop, "value"))
           /\ (ExtraOK("mean") \/ Report(Prop, "mean"))
=============================================================================
