------------------------------ MODULE IEEETest ------------------------------
(* Self test of IEEE.tla: decoding of keys and correct rounding of + - * / against Python doubles. *)
EXTENDS IEEE, Json, IOUtils, TLC
Vec == ndJsonDeserialize(IOEnv.IVEC)
Check(i) == LET v == Vec[i] IN
    /\ Assert(QEq(KeyQ(v.ka), v.qa) /\ QEq(KeyQ(v.kb), v.qb) /\ QEq(KeyQ(v.kr), v.qr), <<"decode", i>>)
    /\ Assert(QEq(RoundQ(v.exact), v.qr), <<"round", v.op, i>>)
ASSUME \A i \in 1..Len(Vec) : Check(i)
ASSUME PrintT(<<"IEEETest", "vectors", Len(Vec), "ok">>)
=============================================================================
