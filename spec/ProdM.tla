-------------------------------- MODULE ProdM -------------------------------
(* Prod.tla with the implementation-shaped machine carried along the same tree (invariant family 3:
   conformance of the real observations with the machine; licenses transferring model-level results) *)
EXTENDS Machines, Tally, Json, IOUtils, TLC

Scope  == JsonDeserialize(IOEnv.SCOPE)
Tab    == ndJsonDeserialize(IOEnv.TABLE)
Cfgs   == Scope.cfgs
Alpha  == Scope.alphabet
A      == Len(Alpha)
Unit   == Scope.unit
MaxLen == Scope.maxlen

VARIABLES c, hist, idx, st
vars == <<c, hist, idx, st>>

Init == /\ c \in 1..Len(Cfgs) /\ hist = <<>> /\ idx = 0 /\ st = TM_Init(Cfgs[c])
Update(a) == /\ Len(hist) < MaxLen
             /\ hist' = Append(hist, Alpha[a])
             /\ idx' = idx * A + (a - 1)
             /\ st' = TM_Step(Cfgs[c], st, QFrac(Alpha[a], Unit))
             /\ UNCHANGED c
Next == \E a \in 1..A : Update(a)

Cfg == Cfgs[c]
ObsNow == Tab[(c - 1) * (MaxLen + 1) + Len(hist) + 1].o[idx + 1]
Eps == IF "eps" \in DOMAIN Scope THEN QFrac(Scope.eps[1], Scope.eps[2]) ELSE QPow10Neg(9)

(* real observation vs machine answer *)
Conforms ==
    LET mo == TM_Out(Cfg, st) o == ObsNow IN
    IF mo = MUndef THEN TRUE
    ELSE IF TM_Panicked(Cfg, st) THEN OIsPanic(o)
    ELSE IF mo = MNone THEN OIsNone(o)
    ELSE /\ OIsSome(o)
         /\ IF mo[1] = "sq" THEN OSign(o) >= 0 /\ QClose(QSq(OQ(o)), mo[2], QMul(Eps, QMax(QOne, QAbs(mo[2]))))
            ELSE QClose(OQ(o), VQ(mo), QMul(Eps, QMax(QOne, QAbs(VQ(mo)))))

Verdict == /\ Tally("states")
           /\ \/ OIsReject(ObsNow)
              \/ (Conforms /\ Tally("conforms"))
              \/ (/\ Tally("drift")
                  /\ \/ ~TallyUpTo("print." \o ToString(c), 5)
                     \/ PrintT(<<"DRIFT", c, Len(hist), idx>>))
Post == TallyDump(TLCGet("stats").generated)
=============================================================================
