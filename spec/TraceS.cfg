INIT Init
NEXT Next
INVARIANT Verdict
POSTCONDITION Post
CHECK_DEADLOCK FALSE
