------------------------------- MODULE Ranges -------------------------------
(* C07: the documented range of every bounded view, as a predicate on one observation o of configuration cfg
   (prev: the previous observation; positive: all inputs so far were positive).  Resolved to 1e-12 relative. *)
EXTENDS Tree

Res(q) == QMul(QPow10Neg(12), QMax(QOne, QAbs(q)))
InQ(o, lo, hi) == QLe(QSub(lo, Res(lo)), OQ(o)) /\ QLe(OQ(o), QAdd(hi, Res(hi)))
MinusOne == QInt(-1)
LN199 == FLn(FFromInt(199))

RangeOf(cfg, o, prev, positive) ==
    LET k == cfg.k IN
    CASE k = "Rsi" -> InQ(o, QZero, QInt(100))
      [] k \in {"MyRSI", "HLNormalizer", "CorrelationTrendIndicator", "NoiseEliminationTechnology", "Tanh",
                "PolarizedFractalEfficiency"} -> InQ(o, MinusOne, QOne)
      [] k \in {"LaguerreRSI", "BinaryEntropy"} -> InQ(o, QZero, QOne)
      [] k = "EhlersFisherTransform" -> WCmp(WAbs(OF(o)), WAdd(LN199, WPow10(9))) <= 0
      [] k \in {"WelfordOnline", "WelfordRolling"} -> OSign(o) >= 0
      [] k = "Vsct" -> QLe(QSq(OQ(o)), QAdd(QFrac((cfg.n - 1) * (cfg.n - 1), cfg.n), QPow10Neg(9)))
      [] k = "GTE" -> QLe(ParamQ(cfg.v), OQ(o))
      [] k = "LTE" -> QLe(OQ(o), ParamQ(cfg.v))
      [] k = "Drawdown" -> ~positive \/ (InQ(o, QZero, QOne) /\ QLt(OQ(o), QOne)
                                         /\ (~OIsSome(prev) \/ QLe(OQ(prev), OQ(o))))
      [] k = "CenterOfGravity" -> ~positive \/ QLe(QAbs(OQ(o)), QAdd(QFrac(cfg.n - 1, 2), Res(QInt(cfg.n))))
      [] OTHER -> TRUE
=============================================================================
