------------------------------- MODULE MC_C01 -------------------------------
(***************************************************************************)
(* C01: chaining.  The relation is between REAL objects and needs no       *)
(* per-view semantics:                                                     *)
(*   configuration 2k-1  the composite B<Tap1<A<Probe0>>> (or a binary     *)
(*                       node over Tap1<X<Probe0>>, Tap3<Y<Probe2>>), with *)
(*                       the harness' transparent observation points       *)
(*                       between the crate's views;                        *)
(*   configuration 2k    the decomposition executed literally: stand-alone *)
(*                       A fed the raw values, its Some-answers fed into   *)
(*                       stand-alone B over Echo.                          *)
(* Invariants in every state of the behaviour tree:                        *)
(*   same-answer   composite and decomposition answer bit-identically      *)
(*   forward-once  every observation point received exactly one update     *)
(*                 per top-level update, carrying the raw value, outer     *)
(*                 before inner; reads never trigger updates               *)
(*   both-ready    a binary node reports a value iff both children do      *)
(*   ma-slot       the moving-average slot of PFE / EFT receives exactly   *)
(*                 one update per derived value, passed on unchanged       *)
(***************************************************************************)
EXTENDS Prod

IsComposite(ci) == ci % 2 = 1
InitC == c \in {ci \in 1..Len(Cfgs) : IsComposite(ci)} /\ hist = <<>> /\ idx = 0

Ev == Line(c, Len(hist)).ev[idx + 1]
Us(id) == SelectSeq(Ev, LAMBDA e : e[1] = id /\ e[2] = "u")
Ls(id) == SelectSeq(Ev, LAMBDA e : e[1] = id /\ e[2] = "l")
PosOfU(id) == CHOOSE i \in 1..Len(Ev) : Ev[i][1] = id /\ Ev[i][2] = "u"
RawQ == QFrac(IF hist[Len(hist)] = 2147483647 THEN 0 ELSE hist[Len(hist)], Unit)
IsRaw(o) == OIsSome(o) /\ QClose(OQ(o), RawQ, QMul(QPow10Neg(12), QMax(QOne, QAbs(RawQ))))

Binary == Cfg.k \in BinaryKinds
HasMA  == Cfg.k \in {"PolarizedFractalEfficiency", "EhlersFisherTransform"}
Dead   == OIsPanic(ObsNow)

SameAnswer == Binary \/ Len(hist) = 0          \* the statement speaks about the output after every update
              \/ (Tally("same-answer") /\ OSame(ObsNow, ObsAt(c + 1, Len(hist), idx)))

Once(id) == Len(Us(id)) = 1 /\ IsRaw(Us(id)[1][3])
ForwardOnce ==
    \/ Len(hist) = 0 /\ \A i \in 1..Len(Ev) : Ev[i][2] = "l"       \* reading a fresh tree updates nothing
    \/ Len(hist) > 0 /\ Dead
    \/ /\ Len(hist) > 0
       /\ Tally("forward-once")
       /\ Once(1) /\ Once(0) /\ PosOfU(1) < PosOfU(0)
       /\ (~Binary \/ (Once(3) /\ Once(2) /\ PosOfU(3) < PosOfU(2)))

(* the children's answers as the node last read them *)
LastAns(id) == LET l == Ls(id) IN IF l = <<>> THEN "?" ELSE l[Len(l)][3][1]
(* ... or, if the node did not even ask this child, what the child's definition says about its readiness *)
ChildAns(i, id) ==
    IF LastAns(id) # "?" THEN LastAns(id)
    ELSE LET r == TreeVal(ChildOf(ChildOf(Cfg, i), 1), Raw) IN      \* the child view under its observation point
         IF r[1] = "n" THEN "n" ELSE IF r[1] \in {"q", "f"} THEN "s" ELSE "?"
BothReady == \/ ~Binary \/ Dead
             \/ LET a == ChildAns(1, 1) b == ChildAns(2, 3) IN
                \/ a = "?" \/ b = "?"
                \/ (Tally("both-ready") /\ (OIsValue(ObsNow) <=> (a = "s" /\ b = "s")))

(* number of derived values the node owes its moving average in this step (-1: not determined), from the definition:
   PFE derives one value per delivered value once N have been delivered; EFT one per delivered value unless its window is flat *)
InnerOf == ChildOf(ChildOf(Cfg, 1), 1)
(* <<lo, hi>>: how many derived values the node may owe its average in this step *)
Derived ==
    LET now == Delivered(InnerOf, Raw)
        bef == Delivered(InnerOf, Front(Raw))
    IN  IF ~now[1] \/ ~bef[1] THEN <<0, 1>>
        ELSE IF Len(now[2]) = Len(bef[2]) THEN <<0, 0>>
        ELSE IF Cfg.k = "PolarizedFractalEfficiency" THEN (IF Len(now[2]) >= Cfg.n THEN <<1, 1>> ELSE <<0, 0>>)
        ELSE LET w == LastK(now[2], Cfg.n)
                 spread == QSub(QMaxSeq(w), QMinSeq(w))
             IN  \* a window that is flat in exact arithmetic may be flat or not in floating point (values such as 7/6);
                 \* a window that is clearly not flat must produce exactly one derived value
                 IF QLe(spread, QMul(QPow10Neg(9), QMax(QOne, QAbs(QMaxSeq(w))))) THEN <<0, 1>> ELSE <<1, 1>>
MaSlot == \/ ~HasMA \/ Len(hist) = 0 \/ Dead
          \/ LET d == Derived n5 == Len(Us(5)) IN
             /\ Tally("ma-slot")
             /\ n5 >= d[1] /\ n5 <= d[2] /\ Len(Us(4)) = n5
             /\ (n5 = 0 \/ OSame(Us(5)[1][3], Us(4)[1][3]))

Live == /\ (SameAnswer \/ Report("C01", "same-answer"))
        /\ (ForwardOnce \/ Report("C01", "forward-once"))
        /\ (BothReady \/ Report("C01", "both-ready"))
        /\ (MaSlot \/ Report("C01", "ma-slot"))

Verdict == /\ Tally("states")
           /\ \/ OIsReject(ObsNow)          \* the constructor refused the configuration: nothing to compare
              \/ Live
=============================================================================
