-------------------------------- MODULE Tree --------------------------------
(***************************************************************************)
(* View trees.  A configuration is the record the harness builds the real  *)
(* view from: [k |-> kind, n |-> window, c |-> <<children>>, ...]; a       *)
(* missing child is Echo.  TreeDef gives the definition of the whole tree   *)
(* after the raw input sequence `raw', following the crate's composition   *)
(* rule (C01): a unary node is delivered exactly the Some-answers of its   *)
(* child, one per raw update, in order; a binary node forwards the raw     *)
(* value to both children and reports iff both do.                         *)
(***************************************************************************)
EXTENDS DefsR

BinaryKinds == {"Add", "Subtract", "Multiply", "Divide"}
LeafKinds   == {"Echo", "Constant", "Probe"}

AlphaOf(node)  == IF HasField(node, "alpha") THEN ParamQ(node.alpha) ELSE QInt(2)
SigmaOf(node)  == IF HasField(node, "sigma") THEN ParamQ(node.sigma) ELSE QInt(6)
OffsetOf(node) == IF HasField(node, "offset") THEN ParamQ(node.offset) ELSE QFrac(17, 20)

(* the definition of one node applied to the sequence xs delivered to it *)
KindDef(node, xs) ==
    CASE node.k = "Echo"          -> Echo_Def(xs)
      [] node.k = "Probe"         -> Echo_Def(xs)
      [] node.k = "Tap"           -> Echo_Def(xs)
      [] node.k = "Constant"      -> RQ(ParamQ(node.v))
      [] node.k = "GTE"           -> GTE_Def(ParamQ(node.v), xs)
      [] node.k = "LTE"           -> LTE_Def(ParamQ(node.v), xs)
      [] node.k \in {"Tanh", "RefTanh"} -> Tanh_Def(xs)
      [] node.k = "Drawdown"      -> Drawdown_Def(xs)
      [] node.k = "LnReturn"      -> LnReturn_Def(xs)
      [] node.k = "WelfordRolling" -> WelfordRolling_Def(xs)
      [] node.k = "Sma"           -> Sma_Def(node.n, xs)
      [] node.k = "Cumulative"    -> Cumulative_Def(node.n, xs)
      [] node.k = "Min"           -> Min_Def(node.n, xs)
      [] node.k = "Max"           -> Max_Def(node.n, xs)
      [] node.k = "WelfordOnline" -> WelfordOnline_Def(node.n, xs)
      [] node.k = "Vst"           -> Vst_Def(node.n, xs)
      [] node.k = "Vsct"          -> Vsct_Def(node.n, xs)
      [] node.k = "HLNormalizer"  -> HLNormalizer_Def(node.n, xs)
      [] node.k = "Roc"           -> Roc_Def(node.n, xs)
      [] node.k = "BinaryEntropy" -> BinaryEntropy_Def(node.n, xs)
      [] node.k = "Rsi"           -> Rsi_Def(node.n, xs)
      [] node.k = "MyRSI"         -> MyRSI_Def(node.n, xs)
      [] node.k = "CenterOfGravity" -> CoG_Def(node.n, xs)
      [] node.k = "CorrelationTrendIndicator" -> CTI_Def(node.n, xs)
      [] node.k = "NoiseEliminationTechnology" -> NET_Def(node.n, xs)
      [] node.k = "Ema"           -> Ema_Def(node.n, AlphaOf(node), xs)
      [] node.k = "Alma"          -> Alma_Def(node.n, SigmaOf(node), OffsetOf(node), xs)
      [] OTHER                    -> KindDefR(node, xs)

(* the extra getters of the Welford views, over the values xs delivered to the node; they are plain numbers, not Options,
   so nothing is said about them while nothing has been delivered *)
ExtraKind(node, name, xs) ==
    IF xs = <<>> THEN RAny ELSE
    CASE node.k = "WelfordOnline" /\ name = "mean"  -> WelfordOnlineMean_Def(node.n, xs)
      [] node.k = "WelfordOnline" /\ name = "var"   -> WelfordOnlineVar_Def(node.n, xs)
      [] node.k = "WelfordRolling" /\ name = "mean" -> WelfordRollingMean_Def(xs)
      [] node.k = "WelfordRolling" /\ name = "var"  -> WelfordRollingVar_Def(xs)
      [] OTHER -> RAny

-----------------------------------------------------------------------------
(* C08: documented readiness as a function of the number t of delivered values:
   "yes" (must report), "no" (must not), "either" (not fixed by the documentation) *)
KindReady(node, t, r) ==
    LET fixed(w) == IF t >= w THEN "yes" ELSE "no"
        first    == IF t >= 1 THEN "yes" ELSE "either"
        fromdef  == IF r[1] = "n" THEN "no" ELSE IF r[1] \in {"q", "f", "f2", "sq"} THEN "yes" ELSE "either"
    IN
    CASE node.k \in {"Sma", "Ema", "SuperSmoother", "Rsi", "MyRSI"} -> fixed(node.n)
      [] node.k = "RoofingFilter" -> fixed(node.n + node.m + 1)
      [] node.k = "LnReturn" -> fixed(2)
      [] node.k \in {"WelfordOnline", "Vst", "Vsct"} ->
            IF t >= node.n THEN "yes" ELSE IF t < node.n - 1 THEN "no" ELSE "either"
      [] node.k \in {"Echo", "Probe", "Tap", "Min", "Max", "Cumulative", "Alma", "CenterOfGravity", "BinaryEntropy",
                     "GTE", "LTE", "Tanh", "LaguerreFilter"} -> first
      [] node.k = "Constant" -> "yes"
      [] node.k \in {"Roc", "LaguerreRSI", "Add", "Subtract", "Multiply", "Divide"} -> fromdef
      [] OTHER -> "either"      \* C08 fixes no warm-up for the remaining views: only "never reverts" and "finite"

ToQ(r) == IF r[1] = "q" THEN r[2] ELSE FToQ(r[2])
ToF(r) == IF r[1] = "f" THEN r[2] ELSE FFromQ(r[2])

BinDef(k, a, b) ==
    IF a[1] = "any" \/ b[1] = "any" THEN RAny
    ELSE IF a[1] = "n" \/ b[1] = "n" THEN RNone
    ELSE IF a[1] = "q" /\ b[1] = "q" THEN
        CASE k = "Add"      -> RQ(QAdd(a[2], b[2]))
          [] k = "Subtract" -> RQ(QSub(a[2], b[2]))
          [] k = "Multiply" -> RQ(QMul(a[2], b[2]))
          [] k = "Divide"   -> IF QIsZero(b[2]) THEN RAny ELSE RQ(QDiv(a[2], b[2]))
    ELSE
        CASE k = "Add"      -> RF(FAdd(ToF(a), ToF(b)))
          [] k = "Subtract" -> RF(FSub(ToF(a), ToF(b)))
          [] k = "Multiply" -> RF(FMul(ToF(a), ToF(b)))
          [] k = "Divide"   -> IF ToF(b)[1] = 0 THEN RAny ELSE RF(FDiv(ToF(a), ToF(b)))

ChildOf(node, i) == IF HasField(node, "c") /\ Len(node.c) >= i THEN node.c[i] ELSE [k |-> "Echo"]

RECURSIVE TreeDef(_, _), TreeVal(_, _), Delivered(_, _), EFTFrom(_, _, _, _, _)

(* PFE: for t >= N the signed ratio of the chord sqrt((x_t - x_(t-N+1))^2 + N^2) to the path
   sum_(i=0..N-3) sqrt((x_(t-i) - x_(t-i-1))^2 + 1), negative iff the last step is down, then the
   supplied moving average (child 2, over Echo) of those ratios *)
PFE_P(N, xs, t) ==
    LET chord == FSqrt(FFromQ(QAdd(QSq(QSub(xs[t], xs[t - N + 1])), QInt(N * N))))
        path  == FSumFrom(Force([i \in 1..(N - 2) |-> FSqrt(FFromQ(QAdd(QSq(QSub(xs[t - i + 1], xs[t - i])), QOne)))]), 1)
        p     == FDiv(chord, path)
    IN  IF QLt(xs[t], xs[t - 1]) THEN FNeg(p) ELSE p
PFE_Tree(node, xs) ==
    LET N == node.n t == Len(xs) IN
    IF N < 3 \/ t < N THEN RAny
    ELSE TreeVal(ChildOf(node, 2), [j \in 1..(t - N + 1) |-> FToQ(PFE_P(N, xs, j + N - 1))])

(* Fisher transform: window min-max normalisation to [-1,1], the supplied moving average (child 2),
   clamp to +-0.99, 0.5 ln((1+s)/(1-s)) + 0.5 previous.  A flat window reports 0 and feeds nothing;
   while the average is not ready the answer is unchanged; the first ready step reports 0 if
   nothing was reported before. *)
EFTFrom(node, xs, t, vs, prev) ==
    IF t > Len(xs) THEN prev
    ELSE LET w  == LastK(SubSeq(xs, 1, t), node.n)
             hi == QMaxSeq(w)
             lo == QMinSeq(w)
         IN  IF QEq(hi, lo) THEN EFTFrom(node, xs, t + 1, vs, RF(FZero))
             ELSE LET v   == QScale(2, QSub(QDiv(QSub(xs[t], lo), QSub(hi, lo)), QFrac(1, 2)))
                      vs2 == Append(vs, v)
                      m   == TreeVal(ChildOf(node, 2), vs2)
                  IN  IF m[1] = "any" THEN RAny
                      ELSE IF m[1] = "n" THEN EFTFrom(node, xs, t + 1, vs2, prev)
                      ELSE IF prev[1] = "n" THEN EFTFrom(node, xs, t + 1, vs2, RF(FZero))
                      ELSE IF prev[1] = "any" THEN RAny
                      ELSE LET s == FMax(FQ(-99, 100), FMin(FQ(99, 100), ToF(m)))
                               fish == FAdd(FDivInt(FLn(FDiv(FAdd(FOne, s), FSub(FOne, s))), 2), FDivInt(prev[2], 2))
                           IN  EFTFrom(node, xs, t + 1, vs2, RF(fish))
EFT_Tree(node, xs) == IF Len(xs) = 0 THEN RAny ELSE EFTFrom(node, xs, 1, <<>>, RNone)

(* the definite answer of a subtree: <<"n">>, <<"q",q>>, <<"f",f>> or <<"any">> (not determined by the properties) *)
TreeVal(node, raw) ==
    LET r == TreeDef(node, raw) IN
    CASE r[1] \in {"n", "q", "f", "any"} -> r
      [] r[1] = "f2" -> RAny      \* two accepted spellings of a coefficient: not a definite value
      [] r[1] = "sq" -> RF(FSqrt(FFromQ(r[2])))
      [] r[1] = "hold" -> IF raw = <<>> THEN RAny ELSE TreeVal(node, Front(raw))
      [] r[1] \in {"oq", "of", "osq"} ->
            LET del == IF node.k \in BinaryKinds \/ node.k \in LeafKinds THEN <<TRUE, raw>> ELSE Delivered(ChildOf(node, 1), raw)
                rd  == IF ~del[1] THEN "either" ELSE KindReady(node, Len(del[2]), r)
            IN  IF rd = "yes" THEN (IF r[1] = "oq" THEN RQ(r[2]) ELSE IF r[1] = "of" THEN RF(r[2]) ELSE RF(FSqrt(FFromQ(r[2]))))
                ELSE IF rd = "no" THEN RNone ELSE RAny

(* the values a subtree hands to its parent over the raw history: <<TRUE, values>>, or <<FALSE, <<>>>>
   when the properties do not determine them *)
Delivered(node, raw) ==
    LET vals == Force([i \in 1..Len(raw) |-> TreeVal(node, SubSeq(raw, 1, i))]) IN
    IF \E i \in 1..Len(raw) : vals[i][1] = "any" THEN <<FALSE, <<>>>>
    ELSE LET some == SelectSeq(vals, LAMBDA v : v[1] # "n") IN <<TRUE, [i \in 1..Len(some) |-> ToQ(some[i])]>>

TreeDef(node, raw) ==
    IF node.k \in BinaryKinds THEN BinDef(node.k, TreeVal(ChildOf(node, 1), raw), TreeVal(ChildOf(node, 2), raw))
    ELSE IF node.k \in LeafKinds THEN KindDef(node, raw)
    ELSE LET del == Delivered(ChildOf(node, 1), raw) IN
         IF ~del[1] THEN RAny
         ELSE IF node.k = "PolarizedFractalEfficiency" THEN PFE_Tree(node, del[2])
         ELSE IF node.k = "EhlersFisherTransform" THEN EFT_Tree(node, del[2])
         ELSE KindDef(node, del[2])

(* number of values delivered to the root, or -1 if unknown *)
DeliveredCount(node, raw) ==
    IF node.k \in BinaryKinds \/ node.k \in LeafKinds \/ ChildOf(node, 1).k = "Echo" THEN Len(raw)
    ELSE LET del == Delivered(ChildOf(node, 1), raw) IN IF ~del[1] THEN -1 ELSE Len(del[2])

ExtraDef(node, name, raw) ==
    LET del == Delivered(ChildOf(node, 1), raw) IN IF ~del[1] THEN RAny ELSE ExtraKind(node, name, del[2])
=============================================================================
