------------------------------- MODULE MC_Obs -------------------------------
(***************************************************************************)
(* Properties that are predicates on the observations alone, evaluated at  *)
(* every node of the implementation's behaviour tree (pipeline P1):        *)
(*   C07  documented ranges (and the sibling relation Min <= Sma, Alma,    *)
(*        newest <= Max over the same window)                              *)
(*   C08  readiness: documented warm-up, never reverts, finite, "delivered  *)
(*        nothing => answer unchanged"                                     *)
(*   C15  no panic for a configuration the constructor accepted            *)
(* The scope names the property.  Ranges can be resolved to the logging    *)
(* resolution (1e-12 relative), not to single ulps.                        *)
(***************************************************************************)
EXTENDS Prod, Ranges

Prop == Scope.prop
Positive == \A i \in 1..Len(hist) : hist[i] > 0

(* the sibling configuration (same window, over Echo) of another kind in this scope, 0 if absent *)
Sib(kind) == LET S == {i \in 1..Len(Cfgs) : Cfgs[i].k = kind /\ ~HasField(Cfgs[i], "c")
                                            /\ (kind = "Echo" \/ (HasField(Cfgs[i], "n") /\ Cfgs[i].n = Cfg.n))
                                            /\ ~HasField(Cfgs[i], "sigma") /\ ~HasField(Cfgs[i], "alpha")} IN
             IF S = {} THEN 0 ELSE CHOOSE i \in S : TRUE
SibObs(kind) == LET i == Sib(kind) IN IF i = 0 THEN <<"n">> ELSE ObsAt(i, Len(hist), idx)
LeSib(o, kind) == LET s == SibObs(kind) IN ~OIsSome(s) \/ QLe(OQ(o), QAdd(OQ(s), Res(OQ(s))))
GeSib(o, kind) == LET s == SibObs(kind) IN ~OIsSome(s) \/ QLe(QSub(OQ(s), Res(OQ(s))), OQ(o))

RangeOK(o) ==
    CASE Cfg.k = "Min" -> LeSib(o, "Sma") /\ LeSib(o, "Alma") /\ LeSib(o, "Echo") /\ LeSib(o, "Max")
      [] Cfg.k = "Max" -> GeSib(o, "Sma") /\ GeSib(o, "Alma") /\ GeSib(o, "Echo") /\ GeSib(o, "Min")
      [] OTHER -> RangeOf(Cfg, o, ObsPrev, Positive)

(* known finding (DESIGN.md section 6 #14): the PFE formula that C11 fixes is itself not confined to [-1,1]:
   the chord term sqrt(dx^2 + N^2) can exceed the (N-2)-segment path.  A PFE observation outside the
   range is attributed to that finding only if the specification's own formula yields the same value. *)
PfeFormulaExceeds ==
    /\ Cfg.k = "PolarizedFractalEfficiency"
    /\ LET r == TreeDef(Cfg, Raw) IN
       r[1] \in {"q", "f"} /\ Matches(ObsNow, ObsPrev, r, Eps9)
       /\ WCmp(WAbs(ToF(r)), FOne) > 0

V07 == \/ ~OIsSome(ObsNow)
       \/ (Tally("range." \o Cfg.k) /\ RangeOK(ObsNow))
       \/ IF PfeFormulaExceeds THEN Report("C07", "range-pfe-formula") ELSE Report("C07", "range")

-----------------------------------------------------------------------------
NoRevert  == ~OIsValue(ObsPrev) \/ OIsValue(ObsNow) \/ OIsPanic(ObsNow)
Finite    == ~OIsNonFinite(ObsNow)
(* documented warm-up, as a function of the number dc of values delivered to the root *)
WarmupOK(dc) ==
    LET rd == IF dc < 0 THEN "either" ELSE KindReady(Cfg, dc, TreeDef(Cfg, Raw)) IN
    \/ OIsPanic(ObsNow) \/ OIsReject(ObsNow)
    \/ (rd = "yes" /\ Tally("ready.yes") /\ OIsValue(ObsNow))
    \/ (rd = "no" /\ Tally("ready.no") /\ OIsNone(ObsNow))
    \/ (rd = "either" /\ Tally("ready.either"))
(* a view that was delivered nothing in this step keeps its answer *)
UnchangedOK(dc) ==
    \/ Len(hist) = 0 \/ dc < 0 \/ OIsPanic(ObsNow)
    \/ LET dp == DeliveredCount(Cfg, Front(Raw)) IN
       dp < 0 \/ dc # dp \/ (Tally("undelivered") /\ OSame(ObsNow, ObsPrev))

V08 == LET dc == DeliveredCount(Cfg, Raw) IN
       /\ (NoRevert \/ Report("C08", "readiness-reverted"))
       /\ (Finite \/ Report("C08", "non-finite"))
       /\ (WarmupOK(dc) \/ Report("C08", "warm-up"))
       /\ (UnchangedOK(dc) \/ Report("C08", "changed-without-delivery"))

-----------------------------------------------------------------------------
V15 == \/ (~OIsPanic(ObsNow) /\ Tally("nopanic"))
       \/ OIsReject(ObsNow)
       \/ Report("C15", "panic")

Verdict == /\ Tally("states")
           /\ CASE Prop = "C07" -> V07
                [] Prop = "C08" -> V08
                [] Prop = "C15" -> V15
=============================================================================
