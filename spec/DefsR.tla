-------------------------------- MODULE DefsR -------------------------------
(***************************************************************************)
(* Definitions of the recursive / transcendental views (class R): the      *)
(* difference equations of the papers the sources cite, under the crate's  *)
(* conventions (C11, DESIGN.md Appendix A), as a fold over the complete    *)
(* delivered history.  Coefficients are formulas of the window length N    *)
(* evaluated in 20-decimal fixed point (Fx); views with rational           *)
(* coefficients (LaguerreFilter, LaguerreRSI, CyberCycle) are exact.       *)
(***************************************************************************)
EXTENDS Defs

FQ(i, u) == FFromQ(QFrac(i, u))
FTwo == FFromInt(2)

(* the two spellings of the SuperSmoother angle: the property text writes 1.414 pi / N, the source
   4.4422 / N ("radians of 1.414 * 180 degrees"); they differ by 1.2e-5 / N rad.  Both are the
   documented filter; an observation has to match one of them. *)
AngleA(N) == FDivInt(FQ(44422, 10000), N)
AngleB(N) == FDivInt(FMul(FQ(1414, 1000), FPI), N)

(* two-pole smoother coefficients <<c1, c2, c3>> from a1 and the angle *)
SmootherCoef(a1, ang) ==
    LET b1 == FMul(FTwo, FMul(a1, FCos(ang)))
        c3 == FNeg(FSq(a1))
    IN  <<FSub(FSub(FOne, b1), c3), b1, c3>>
SSCoef(N, ang) == SmootherCoef(FExp(FNeg(FDivInt(FMul(FQ(1414, 1000), FPI), N))), ang)
FlexCoef(N)    == SmootherCoef(FExp(FNeg(FDivInt(FFromQ(<<<<1, <<2435, 4240, 8884>>>>, WPow10(11)>>), N))),
                               FDivInt(FFromQ(<<<<1, <<1218, 2120, 4442>>>>, WPow10(11)>>), N))

(* f_t = c1 (x_t + x_(t-1))/2 + c2 f_(t-1) + c3 f_(t-2); returns the sequence f_1..f_t.
   xprev0 is x_0; terms2/terms3 switch the feedback taps on (TrendFlex/ReFlex start with taps missing) *)
RECURSIVE SmoothFrom(_, _, _, _, _, _, _)
SmoothFrom(xs, i, co, xprev, f1, f2, acc) ==
    IF i > Len(xs) THEN acc
    ELSE LET x == xs[i]
             f == FAdd(FAdd(FDivInt(FMul(co[1], FAdd(x, xprev)), 2), FMul(co[2], f1)), FMul(co[3], f2))
         IN  SmoothFrom(xs, i + 1, co, x, f, f1, Append(acc, f))
(* zero initial filter state, x_0 given *)
Smooth(xsF, co, x0) == SmoothFrom(xsF, 1, co, x0, FZero, FZero, <<>>)

ToFSeq(xs) == Force([i \in 1..Len(xs) |-> FFromQ(xs[i])])

SuperSmootherF(N, ang, xs) == Last(Smooth(ToFSeq(xs), SSCoef(N, ang), FZero))
SuperSmoother_Def(N, xs) ==
    IF Len(xs) < N \/ Len(xs) = 0 THEN RAny
    ELSE <<"f2", SuperSmootherF(N, AngleA(N), xs), SuperSmootherF(N, AngleB(N), xs)>>

(* two-pole high-pass of the roofing filter: hp_t over the whole history, zero initial state *)
RECURSIVE HpFrom(_, _, _, _, _, _, _, _)
HpFrom(xs, i, k1, k2, k3, x1, x2, st) ==
    \* st = <<hp1, hp2, acc>>
    IF i > Len(xs) THEN st[3]
    ELSE LET x == xs[i]
             hp == FSub(FAdd(FMul(k1, FAdd(FSub(x, FMul(FTwo, x1)), x2)), FMul(k2, st[1])), FMul(k3, st[2]))
         IN  HpFrom(xs, i + 1, k1, k2, k3, x, x1, <<hp, st[1], Append(st[3], hp)>>)
HighPass(N, ang, xsF) ==
    LET a1 == FDiv(FSub(FAdd(FCos(ang), FSin(ang)), FOne), FCos(ang))
        k1 == FSq(FSub(FOne, FDivInt(a1, 2)))
        k2 == FMul(FTwo, FSub(FOne, a1))
        k3 == FSq(FSub(FOne, a1))
    IN  HpFrom(xsF, 1, k1, k2, k3, FZero, FZero, <<FZero, FZero, <<>>>>)
RoofingF(N, M, angN, angM, xs) ==
    LET hp == HighPass(N, angN, ToFSeq(xs))
        fed == SubSeq(hp, N + 2, Len(hp))
    IN  Last(Smooth(fed, SSCoef(M, angM), FZero))
RoofingFilter_Def(N, M, xs) ==
    IF Len(xs) < N + M + 1 THEN RAny
    ELSE <<"f2", RoofingF(N, M, AngleA(N), AngleA(M), xs), RoofingF(N, M, AngleB(N), AngleB(M), xs)>>

-----------------------------------------------------------------------------
(* Laguerre ladder, exact rationals.  state <<L0, L1, L2, L3>> *)
LagStep(g, s, x) ==
    LET l0 == QNorm(QAdd(QMul(QSub(QOne, g), x), QMul(g, s[1])))
        l1 == QNorm(QAdd(QAdd(QNeg(QMul(g, l0)), s[1]), QMul(g, s[2])))
        l2 == QNorm(QAdd(QAdd(QNeg(QMul(g, l1)), s[2]), QMul(g, s[3])))
        l3 == QNorm(QAdd(QAdd(QNeg(QMul(g, l2)), s[3]), QMul(g, s[4])))
    IN  <<l0, l1, l2, l3>>
RECURSIVE LagFrom(_, _, _, _)
LagFrom(xs, i, g, s) == IF i > Len(xs) THEN s ELSE LagFrom(xs, i + 1, g, LagStep(g, s, xs[i]))

(* first value initialises all four stages *)
LaguerreFilter_Def(g, xs) ==
    IF Len(xs) = 0 THEN RAny
    ELSE LET s == LagFrom(xs, 2, g, <<xs[1], xs[1], xs[1], xs[1]>>) IN
         RQ(QDiv(QAdd(QAdd(s[1], QScale(2, s[2])), QAdd(QScale(2, s[3]), s[4])), QInt(6)))

(* gamma = 2/(N+1); the first two values are consumed without effect, then the ladder runs from the
   zero state; CU/CD from the three successive differences (>= counts as up); previous value is
   held while CU+CD = 0 *)
RECURSIVE LaguerreRSI_Def(_, _)
LaguerreRSI_Def(N, xs) ==
    LET t == Len(xs) IN
    IF t <= 2 THEN RNone
    ELSE LET g == QFrac(2, N + 1)
             s == LagFrom(xs, 3, g, <<QZero, QZero, QZero, QZero>>)
             up(a, b) == IF QLe(b, a) THEN QSub(a, b) ELSE QZero
             dn(a, b) == IF QLe(b, a) THEN QZero ELSE QSub(b, a)
             cu == QAdd(QAdd(up(s[1], s[2]), up(s[2], s[3])), up(s[3], s[4]))
             cd == QAdd(QAdd(dn(s[1], s[2]), dn(s[2], s[3])), dn(s[3], s[4]))
         IN  IF QIsZero(QAdd(cu, cd)) THEN LaguerreRSI_Def(N, Front(xs))
             ELSE RQ(QDiv(cu, QAdd(cu, cd)))

(* alpha = 2/(N+1); C_t = 0 for t < N; values before the first are taken equal to the first *)
XAt(xs, j) == IF j < 1 THEN xs[1] ELSE xs[j]
SmoothAt(xs, j) == QDiv(QAdd(QAdd(XAt(xs, j), QScale(2, XAt(xs, j - 1))), QAdd(QScale(2, XAt(xs, j - 2)), XAt(xs, j - 3))), QInt(6))
RECURSIVE CyberFrom(_, _, _, _, _, _)
CyberFrom(xs, t, N, a, c1, c2) ==
    IF t > Len(xs) THEN c1
    ELSE LET c == IF t < N THEN QZero
                  ELSE QNorm(QAdd(QSub(QMul(QSq(QSub(QOne, QDiv(a, Two))),
                                       QAdd(QSub(SmoothAt(xs, t), QScale(2, SmoothAt(xs, t - 1))), SmoothAt(xs, t - 2))),
                                  QMul(QSq(QSub(QOne, a)), c2)),
                             QMul(QScale(2, QSub(QOne, a)), c1)))
         IN  CyberFrom(xs, t + 1, N, a, c, c1)
CyberCycle_Def(N, xs) ==
    IF Len(xs) = 0 THEN RAny ELSE RQ(CyberFrom(xs, 1, N, QFrac(2, N + 1), QZero, QZero))

-----------------------------------------------------------------------------
(* TrendFlex / ReFlex: smoother with first-value x_0, zero filter state *)
FlexSmooth(N, xs) == LET xf == ToFSeq(xs) IN Smooth(xf, FlexCoef(N), xf[1])

(* d_j for every step j, given the smoother outputs fs *)
TrendD(N, fs, j) ==
    LET n == IF j < N THEN j ELSE N IN
    FDivInt(FSumFrom(Force([i \in 1..n |-> FSub(fs[j], fs[j - i + 1])]), 1), N)
ReflexD(N, fs, j) ==
    LET n == IF j < N THEN j ELSE N
        slope == FDivInt(FSub(fs[j - n + 1], fs[j]), N)
    IN  FDivInt(FSumFrom(Force([i \in 1..n |-> FSub(FAdd(fs[j], FMulInt(i - 1, slope)), fs[j - i + 1])]), 1), N)
(* leaky mean square ms_j = 0.04 d_j^2 + 0.96 ms_(j-1) *)
RECURSIVE MsFrom(_, _, _)
MsFrom(ds, j, ms) == IF j > Len(ds) THEN ms
                     ELSE MsFrom(ds, j + 1, FAdd(FMul(FQ(4, 100), FSq(ds[j])), FMul(FQ(96, 100), ms)))
FlexOut(ds) ==
    LET ms == MsFrom(ds, 1, FZero) IN
    IF ms[1] > 0 THEN <<TRUE, FDiv(Last(ds), FSqrt(ms))>> ELSE <<FALSE, FZero>>

(* every d_j exactly 0 <=> the smoother output never moved <=> all inputs are 0 (for N >= 2) *)
TrendFlex_Def(N, xs) ==
    IF Len(xs) = 0 \/ N < 3 THEN RAny
    ELSE LET fs == FlexSmooth(N, xs)
             ds == Force([j \in 1..Len(fs) |-> TrendD(N, fs, j)])
             o  == FlexOut(ds)
         IN  IF o[1] THEN RF(o[2]) ELSE RQ(QZero)
ReFlex_Def(N, xs) ==
    IF N < 3 THEN RAny
    ELSE IF Len(xs) = 0 THEN RNone
    ELSE LET fs == FlexSmooth(N, xs)
             ds == Force([j \in 1..Len(fs) |-> ReflexD(N, fs, j)])
             o  == FlexOut(ds)
         IN  IF o[1] THEN RF(o[2]) ELSE RNone

KindDefR(node, xs) ==
    CASE node.k = "SuperSmoother"  -> SuperSmoother_Def(node.n, xs)
      [] node.k = "RoofingFilter"  -> RoofingFilter_Def(node.n, node.m, xs)
      [] node.k = "LaguerreFilter" -> LaguerreFilter_Def(ParamQ(node.g), xs)
      [] node.k = "LaguerreRSI"    -> LaguerreRSI_Def(node.n, xs)
      [] node.k = "CyberCycle"     -> CyberCycle_Def(node.n, xs)
      [] node.k = "TrendFlex"      -> TrendFlex_Def(node.n, xs)
      [] node.k = "ReFlex"         -> ReFlex_Def(node.n, xs)
      [] OTHER -> RAny
=============================================================================
