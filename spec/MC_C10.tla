------------------------------- MODULE MC_C10 -------------------------------
(***************************************************************************)
(* C10: superposition, additive half.  The state is a PAIR of histories    *)
(* (x, y) over the alphabet A; the implementation table covers the larger  *)
(* alphabet B that contains every a x_i + b y_i of the listed combinations, *)
(* so the three real runs view(x), view(y), view(a x + b y) are three      *)
(* look-ups.  Invariant: view(a x + b y) = a view(x) + b view(y) at every  *)
(* step, for every pair.  (Homogeneity, view(a x) = a view(x) including    *)
(* a = 0 and a < 0, is the two-table product MC_Rel.)                      *)
(* Also: a low-pass member reproduces a constant stream from its first     *)
(* output.                                                                 *)
(***************************************************************************)
EXTENDS Tree, Tally, Json, IOUtils, TLC

Scope  == JsonDeserialize(IOEnv.SCOPE)
Tab    == ndJsonDeserialize(IOEnv.TABLE)
Cfgs   == Scope.cfgs
B      == Scope.alphabet          \* table alphabet (contiguous integers, increasing)
NB     == Len(B)
A      == Scope.pair_alphabet     \* alphabet of x and y
Combos == Scope.combos            \* <<a, b>> pairs (integers)
Unit   == Scope.unit
MaxLen == Scope.maxlen

VARIABLES c, hx, hy
Init == c \in 1..Len(Cfgs) /\ hx = <<>> /\ hy = <<>>
Next == /\ Len(hx) < MaxLen
        /\ \E u \in 1..Len(A), v \in 1..Len(A) : hx' = Append(hx, A[u]) /\ hy' = Append(hy, A[v])
        /\ UNCHANGED c

RECURSIVE IdxFrom(_, _, _)
IdxFrom(h, i, acc) == IF i > Len(h) THEN acc ELSE IdxFrom(h, i + 1, acc * NB + (h[i] - B[1]))
Idx(h) == IdxFrom(h, 1, 0)
ObsOf(h) == Tab[(c - 1) * (MaxLen + 1) + Len(h) + 1].o[Idx(h) + 1]
Cfg == Cfgs[c]

Eps == IF "eps" \in DOMAIN Scope THEN QFrac(Scope.eps[1], Scope.eps[2]) ELSE QPow10Neg(9)     \* 1e-4 for the f32 instantiation
Comb(k) == [i \in 1..Len(hx) |-> Combos[k][1] * hx[i] + Combos[k][2] * hy[i]]

SuperOK(k) ==
    LET a == Combos[k][1] b == Combos[k][2]
        ox == ObsOf(hx) oy == ObsOf(hy) oz == ObsOf(Comb(k))
    IN  IF OIsSome(ox) /\ OIsSome(oy) /\ OIsSome(oz) THEN
            /\ Tally("superposition")
            /\ LET want == QAdd(QScale(a, OQ(ox)), QScale(b, OQ(oy))) IN
               QClose(OQ(oz), want, QMul(QInt(1 + (IF a < 0 THEN -a ELSE a) + (IF b < 0 THEN -b ELSE b)), QMul(Eps, QMax(QOne, QAbs(want)))))
        ELSE ox[1] = oy[1] /\ oy[1] = oz[1]        \* readiness does not depend on the values

LowPass == {"Sma", "Ema", "Alma", "LaguerreFilter"}
(* a chain counts as low-pass when it is a low-pass member over a low-pass member *)
LowChain == ~HasField(Cfg, "c") \/ (Len(Cfg.c) = 1 /\ Cfg.c[1].k \in LowPass /\ ~HasField(Cfg.c[1], "c"))
ConstOK == \/ Cfg.k \notin LowPass \/ ~LowChain \/ Len(hx) = 0 \/ ~OIsSome(ObsOf(hx))
           \/ \E i \in 1..Len(hx) : hx[i] # hx[1]
           \/ (Tally("constant") /\ QClose(OQ(ObsOf(hx)), QFrac(hx[1], Unit), QMul(QPow10Neg(11), QMax(QOne, QAbs(QFrac(hx[1], Unit))))))

Report(clause, k) ==
    /\ Tally("viol")
    /\ \/ ~TallyUpTo("print." \o ToString(c) \o "." \o clause, 25)
       \/ PrintT(<<"VIOL", "C10", clause, c, Len(hx), Idx(hx), Idx(hy), k>>)

Verdict == /\ Tally("states")
           /\ \A k \in 1..Len(Combos) : SuperOK(k) \/ Report("superposition", k)
           /\ (ConstOK \/ Report("constant", 0))
Post == TallyDump(TLCGet("stats").generated)
=============================================================================
