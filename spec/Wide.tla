------------------------------- MODULE Wide --------------------------------
(***************************************************************************)
(* Signed arbitrary-precision integers in pure TLA+.                       *)
(*                                                                         *)
(* TLC's integers are 32-bit (it aborts with "Overflow when computing      *)
(* ..."), while the specification has to state definitions such as         *)
(* "100(x_t - b)/b" or "Pearson r" exactly and compare them with real f64  *)
(* observations decoded to 12 decimals.  A wide integer is the pair        *)
(*     <<s, d>>   s \in {-1,0,1},                                          *)
(*                d = little-endian base-10^4 limbs, no high zero limb,    *)
(* zero is <<0, <<>>>> (canonical, so equality of values is `=').          *)
(*                                                                         *)
(* Every operator below has a complete TLA+ definition.  For throughput    *)
(* TLC may replace WAdd WSub WMul WCmp WDiv WISqrt WGcd WFromInt by Java        *)
(* module override Wide.class (java.math.BigInteger on the same            *)
(* representation); WideTest.tla checks the definitions against reference  *)
(* vectors with and without the override.                                  *)
(***************************************************************************)
EXTENDS Integers, Sequences

Base == 10000

WZero == <<0, <<>>>>
WOne  == <<1, <<1>>>>

-----------------------------------------------------------------------------
(* limb-level helpers (magnitudes = sequences of limbs) *)

RECURSIVE Strip(_)
Strip(d) == IF d = <<>> THEN d
            ELSE IF d[Len(d)] = 0 THEN Strip(SubSeq(d, 1, Len(d) - 1)) ELSE d

(* propagate carries through signed column values (floor semantics of \div, %); returns
   <<digits in 0..Base-1, final carry>>; the final carry is negative iff the value is negative *)
RECURSIVE CarryFrom(_, _, _)
CarryFrom(c, i, carry) ==
    IF i > Len(c) THEN
        IF carry = 0 \/ carry = -1 THEN <<<<>>, carry>>
        ELSE LET r == CarryFrom(c, i, carry \div Base) IN <<<<carry % Base>> \o r[1], r[2]>>
    ELSE LET v == c[i] + carry
             r == CarryFrom(c, i + 1, v \div Base)
         IN  <<<<v % Base>> \o r[1], r[2]>>

(* signed columns -> canonical wide integer *)
WNormCols(c) ==
    LET r == CarryFrom(c, 1, 0) IN
    IF r[2] = 0 THEN LET d == Strip(r[1]) IN IF d = <<>> THEN WZero ELSE <<1, d>>
    ELSE LET n == CarryFrom([i \in 1..Len(c) |-> -c[i]], 1, 0)
             d == Strip(n[1])
         IN  <<-1, d>>

Cols(a) == [i \in 1..Len(a[2]) |-> a[1] * a[2][i]]
ColAt(a, i) == IF i <= Len(a[2]) THEN a[1] * a[2][i] ELSE 0
MaxI(x, y) == IF x >= y THEN x ELSE y

RECURSIVE MCmpFrom(_, _, _)
MCmpFrom(a, b, i) == IF i = 0 THEN 0
                     ELSE IF a[i] > b[i] THEN 1 ELSE IF a[i] < b[i] THEN -1 ELSE MCmpFrom(a, b, i - 1)
(* compare magnitudes *)
MCmp(a, b) == IF Len(a) > Len(b) THEN 1 ELSE IF Len(a) < Len(b) THEN -1 ELSE MCmpFrom(a, b, Len(a))

(* sum over i of a[i] * b[k+1-i], indices clipped: column k of the product *)
RECURSIVE ConvCol(_, _, _, _, _)
ConvCol(a, b, k, i, hi) == IF i > hi THEN 0 ELSE a[i] * b[k + 1 - i] + ConvCol(a, b, k, i + 1, hi)

(* magnitude product; column sums stay below 2^31 for up to 21 limbs per factor, longer factors
   are split by the carry step every 16 terms *)
RECURSIVE ConvColSafe(_, _, _, _, _)
ConvColSafe(a, b, k, i, hi) ==
    \* returns the column value as a pair <<low, high>> with value = low + high*Base, keeping ints small
    IF i > hi THEN <<0, 0>>
    ELSE LET top == IF i + 15 < hi THEN i + 15 ELSE hi
             part == ConvCol(a, b, k, i, top)
             rest == ConvColSafe(a, b, k, top + 1, hi)
         IN  <<(part % Base) + rest[1], (part \div Base) + rest[2]>>

MMul(a, b) ==
    IF a = <<>> \/ b = <<>> THEN <<>>
    ELSE LET n == Len(a) + Len(b)
             col(k) == LET lo == MaxI(1, k + 1 - Len(b))
                           hi == IF k < Len(a) THEN k ELSE Len(a)
                       IN  ConvColSafe(a, b, k, lo, hi)
             pairs == [k \in 1..n |-> IF k < n THEN col(k) ELSE <<0, 0>>]
             cols == [k \in 1..n |-> pairs[k][1] + (IF k > 1 THEN pairs[k - 1][2] ELSE 0)]
         IN  Strip(CarryFrom(cols, 1, 0)[1])

-----------------------------------------------------------------------------
(* the public operators *)

WFromInt(i) == IF i = 0 THEN WZero
               ELSE IF i > 0 THEN WNormCols(<<i>>) ELSE LET p == WNormCols(<<-i>>) IN <<-1, p[2]>>
WNeg(a)  == <<-a[1], a[2]>>
WAbs(a)  == <<IF a[1] = 0 THEN 0 ELSE 1, a[2]>>
WSign(a) == a[1]
WIsZero(a) == a[1] = 0

WAdd(a, b) == WNormCols([i \in 1..MaxI(Len(a[2]), Len(b[2])) |-> ColAt(a, i) + ColAt(b, i)])
WSub(a, b) == WNormCols([i \in 1..MaxI(Len(a[2]), Len(b[2])) |-> ColAt(a, i) - ColAt(b, i)])
WMul(a, b) == IF a[1] = 0 \/ b[1] = 0 THEN WZero ELSE <<a[1] * b[1], MMul(a[2], b[2])>>

(* -1, 0, 1 *)
WCmp(a, b) == IF a[1] # b[1] THEN (IF a[1] > b[1] THEN 1 ELSE -1)
              ELSE IF a[1] = 0 THEN 0
              ELSE a[1] * MCmp(a[2], b[2])
WLt(a, b) == WCmp(a, b) < 0
WLe(a, b) == WCmp(a, b) <= 0
WEq(a, b) == a = b
WMax(a, b) == IF WLe(a, b) THEN b ELSE a
WMin(a, b) == IF WLe(a, b) THEN a ELSE b

(* multiply by Base^k (k >= 0) *)
WShift(a, k) == IF a[1] = 0 \/ k = 0 THEN a ELSE <<a[1], [i \in 1..k |-> 0] \o a[2]>>

(* magnitude times small natural (< Base) *)
MMulSmall(a, q) == IF q = 0 \/ a = <<>> THEN <<>>
                   ELSE Strip(LET r == CarryFrom([i \in 1..Len(a) |-> a[i] * q], 1, 0) IN r[1])

(* largest q in lo..hi with b*q <= r  (magnitudes; b # <<>>); binary search *)
RECURSIVE QDigit(_, _, _, _)
QDigit(r, b, lo, hi) ==
    IF lo = hi THEN lo
    ELSE LET mid == (lo + hi + 1) \div 2 IN
         IF MCmp(MMulSmall(b, mid), r) <= 0 THEN QDigit(r, b, mid, hi) ELSE QDigit(r, b, lo, mid - 1)

MSub(a, b) == WSub(<<1, a>>, <<1, b>>)[2]     \* a >= b

(* long division of magnitudes, most significant limb first; returns <<quotient limbs (little endian), remainder>> *)
RECURSIVE MDivFrom(_, _, _, _)
MDivFrom(a, b, i, rem) ==
    IF i = 0 THEN <<<<>>, rem>>
    ELSE LET cur == Strip(<<a[i]>> \o rem)
             q   == IF MCmp(cur, b) < 0 THEN 0 ELSE QDigit(cur, b, 1, Base - 1)
             nr  == IF q = 0 THEN cur ELSE MSub(cur, MMulSmall(b, q))
             r   == MDivFrom(a, b, i - 1, nr)
         IN  <<r[1] \o <<q>>, r[2]>>

(* floor division, b # 0 *)
WDiv(a, b) ==
    IF a[1] = 0 THEN WZero
    ELSE LET r == MDivFrom(a[2], b[2], Len(a[2]), <<>>)
             q == Strip(r[1])
             exact == r[2] = <<>>
             sgn == a[1] * b[1]
         IN  IF sgn > 0 THEN (IF q = <<>> THEN WZero ELSE <<1, q>>)
             ELSE \* negative quotient: floor rounds away from zero when inexact
                  LET m == IF exact THEN (IF q = <<>> THEN WZero ELSE <<1, q>>)
                           ELSE WAdd(IF q = <<>> THEN WZero ELSE <<1, q>>, WOne)
                  IN  WNeg(m)
WMod(a, b) == WSub(a, WMul(b, WDiv(a, b)))

(* round-to-nearest division (ties away from floor), b > 0 *)
WDivRound(a, b) == WDiv(WAdd(WMul(a, <<1, <<2>>>>), b), WMul(b, <<1, <<2>>>>))

RECURSIVE WGcdRec(_, _)
WGcdRec(a, b) == IF b[1] = 0 THEN a ELSE WGcdRec(b, WMod(a, b))
(* gcd of the magnitudes, >= 0 *)
WGcd(a, b) == WGcdRec(WAbs(a), WAbs(b))

(* floor of the square root of a >= 0: Newton from above *)
RECURSIVE SqrtIter(_, _)
SqrtIter(a, x) == LET y == WDiv(WAdd(x, WDiv(a, x)), <<1, <<2>>>>) IN
                  IF WCmp(y, x) >= 0 THEN x ELSE SqrtIter(a, y)
WISqrt(a) == IF a[1] = 0 THEN WZero
             ELSE SqrtIter(a, <<1, [i \in 1..((Len(a[2]) + 1) \div 2) |-> 0] \o <<1>>>>)

(* 10^k, k >= 0 *)
WPow10(k) == LET r == k % 4
                 lead == IF r = 0 THEN 1 ELSE IF r = 1 THEN 10 ELSE IF r = 2 THEN 100 ELSE 1000
             IN  <<1, [i \in 1..(k \div 4) |-> 0] \o <<lead>>>>

RECURSIVE WPowRec(_, _)
WPowRec(a, k) == IF k = 0 THEN WOne ELSE WMul(a, WPowRec(a, k - 1))
WPow(a, k) == WPowRec(a, k)

(* a small wide integer back to a TLC integer (|a| < 10^8 assumed by the caller) *)
WToInt(a) == IF a[1] = 0 THEN 0
             ELSE a[1] * (a[2][1] + (IF Len(a[2]) > 1 THEN a[2][2] * Base ELSE 0))

(* well-formedness, used by the self test *)
WIsCanonical(a) == /\ a[1] \in {-1, 0, 1}
                   /\ (a[1] = 0) <=> (a[2] = <<>>)
                   /\ \A i \in 1..Len(a[2]) : a[2][i] \in 0..(Base - 1)
                   /\ (a[2] # <<>> => a[2][Len(a[2])] # 0)
=============================================================================
