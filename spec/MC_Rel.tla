------------------------------- MODULE MC_Rel -------------------------------
(***************************************************************************)
(* Relations between TWO real runs (self-composition as a product):        *)
(* the second table holds the implementation's behaviour tree over the     *)
(* transformed alphabet x -> a x + b (same indices), so every state of the *)
(* exploration compares the observation for a history with the one for    *)
(* its transform.                                                          *)
(*   C12  invariance / equivariance / negation table                       *)
(*   C04  affine clause (averages commute with x -> a x + b, a > 0)        *)
(*   C10  homogeneity half of superposition (view(a x) = a view(x))        *)
(* The relation table below is the specification's reading of the          *)
(* property statements; it needs no per-view semantics.                    *)
(***************************************************************************)
EXTENDS Prod

Tab2   == ndJsonDeserialize(IOEnv.TABLE2)
Cfgs2  == IF "cfgs2" \in DOMAIN Scope THEN Scope.cfgs2 ELSE Cfgs
ObsB   == Tab2[(c - 1) * (MaxLen + 1) + Len(hist) + 1].o[idx + 1]
ObsA   == ObsNow
FA     == QFrac(Scope.a[1], Scope.a[2])
FB     == QFrac(Scope.b[1], Scope.b[2])
Mode   == Scope.mode        \* "affine" (a > 0, any b) | "scale" (a > 0, b = 0) | "neg" (a = -1, b = 0)
Prop   == Scope.prop

Linear == {"Sma", "Ema", "Alma", "Cumulative", "LaguerreFilter", "SuperSmoother", "RoofingFilter", "CyberCycle"}

(* what the statement says happens to the output *)
Expect(k) ==
    CASE Mode = "affine" ->
            IF k \in {"HLNormalizer", "Vsct", "CorrelationTrendIndicator", "NoiseEliminationTechnology", "EhlersFisherTransform"} THEN "inv"
            ELSE IF k \in {"Sma", "Ema", "Alma", "Min", "Max"} THEN "affine"
            ELSE "none"
      [] Mode = "scale" ->
            IF k \in {"HLNormalizer", "Vsct", "CorrelationTrendIndicator", "NoiseEliminationTechnology", "EhlersFisherTransform",
                      "Rsi", "MyRSI", "LaguerreRSI", "Vst", "Roc", "CenterOfGravity", "BinaryEntropy", "TrendFlex", "ReFlex",
                      "LnReturn", "Drawdown"} THEN "inv"
            ELSE IF k \in Linear \cup {"Min", "Max", "WelfordOnline"} THEN "scale"
            ELSE "none"
      [] Mode = "neg" ->
            IF k \in {"HLNormalizer", "Vsct", "Vst", "MyRSI", "CorrelationTrendIndicator", "NoiseEliminationTechnology",
                      "TrendFlex", "ReFlex", "Min", "Max"} \cup Linear THEN "neg"     \* Min(x) vs Max(-x): paired through cfgs2
            ELSE IF k = "Rsi" THEN "rsi"
            ELSE "none"

(* the clause "whenever the window is not degenerate (flat)": the values the view can still see *)
Memory(node) == IF node.k \in {"Rsi", "MyRSI", "Roc"} THEN node.n + 1
                ELSE IF HasField(node, "n") THEN node.n ELSE Len(hist)
Degenerate == Len(hist) = 0 \/ AllEqual(LastK(Raw, Memory(Cfg)))

BitExact == HasField(Scope, "bitexact")
(* value tolerance: 1e-9 relative; when the transform is an exact scaling by a power of two the f64 results must
   agree exactly, which shows as agreement of the logged 12-decimal values up to their own rounding (2e-12) *)
Tol(q) == IF BitExact THEN QMul(<<WFromInt(2), WPow10(12)>>, QMax(QOne, QAbs(FA)))
          ELSE QMul(QMul(Eps9, QMax(QOne, QMax(QAbs(FA), QAbs(FB)))), QMax(QOne, QAbs(q)))

(* "rescaled": the second run was made in units of 2^k and its answers were converted back by the harness (an exact
   operation), so a view that scales with its input must answer bit-identically *)
Expect2(k) == IF HasField(Scope, "rescaled") /\ Expect(k) = "scale" THEN "inv" ELSE Expect(k)
RelOK ==
    LET e == Expect2(Cfg.k) a == ObsA b == ObsB IN
    IF e = "none" \/ Degenerate \/ (HasField(Scope, "invonly") /\ e # "inv") THEN TRUE
    ELSE IF ~OIsSome(a) \/ ~OIsSome(b) THEN (Tally("rel.nonvalue") /\ a[1] = b[1])
    ELSE /\ Tally("rel." \o e)
         /\ CASE e = "inv"    -> IF BitExact THEN OSameValue(a, b) ELSE QClose(OQ(b), OQ(a), Tol(OQ(a)))
              [] e = "scale"  -> QClose(OQ(b), QMul(FA, OQ(a)), Tol(OQ(a)))
              [] e = "affine" -> QClose(OQ(b), QAdd(QMul(FA, OQ(a)), FB), Tol(OQ(a)))
              [] e = "neg"    -> QClose(OQ(b), QNeg(OQ(a)), Tol(OQ(a)))
              [] e = "rsi"    -> QClose(OQ(b), QSub(QInt(100), OQ(a)), Tol(QInt(100)))

Verdict == /\ Tally("states")
           /\ (RelOK \/ Report(Prop, Mode \o "." \o Expect2(Cfg.k)))
=============================================================================
