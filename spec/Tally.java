import java.util.concurrent.ConcurrentHashMap;
import java.util.concurrent.atomic.AtomicLong;
import tlc2.value.impl.BoolValue;
import tlc2.value.impl.IntValue;
import tlc2.value.impl.StringValue;
import tlc2.value.impl.Value;

/* Java override of Tally.tla: counters only; every operator still evaluates to TRUE / the documented boolean. */
public class Tally {
    private static final ConcurrentHashMap<String, AtomicLong> C = new ConcurrentHashMap<>();
    private static String k(final Value v) {
        return (v instanceof StringValue) ? ((StringValue) v).val.toString() : v.toString();
    }
    public static Value Tally(final Value key) {
        C.computeIfAbsent(k(key), x -> new AtomicLong()).incrementAndGet();
        return BoolValue.ValTrue;
    }
    public static Value TallyUpTo(final Value key, final Value max) {
        final long n = C.computeIfAbsent(k(key), x -> new AtomicLong()).incrementAndGet();
        return n <= ((IntValue) max).val ? BoolValue.ValTrue : BoolValue.ValFalse;
    }
    public static synchronized Value TallyDump(final Value x) {
        final StringBuilder sb = new StringBuilder("TALLY {");
        boolean first = true;
        for (final String key : new java.util.TreeSet<>(C.keySet())) {
            if (!first) sb.append(",");
            first = false;
            sb.append('"').append(key.replace("\"", "'")).append("\":").append(C.get(key).get());
        }
        sb.append("}");
        System.out.println(sb);
        return BoolValue.ValTrue;
    }
}
